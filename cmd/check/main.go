// check is the driver: it rewrites /repo's current working tree into a scratch
// overlay, builds the worker test binary, runs one worker OS process per core,
// owns the wall-clock watchdog, minimises and confirms violations in fresh
// processes, matches them against known_findings.json, writes the evidence
// file and removes the scratch directory.
//
// Exit codes: 0 property held on everything explored (known findings are
// printed as KNOWN-FINDING lines); 1 + "VIOLATION property=<id> replay=<path>";
// 2 build / watchdog / non-reproducing replay trouble (never a VIOLATION).
package main

import (
	"bufio"
	"encoding/binary"
	"encoding/json"
	"flag"
	"fmt"
	"os"
	"os/exec"
	"path/filepath"
	"regexp"
	"runtime"
	"sort"
	"strconv"
	"strings"
	"sync"
	"syscall"
	"time"

	"verifsim/harness"
)

type tierCfg struct {
	Count     int64 // cases (upper bound)
	WallS     int   // sweep wall-clock budget in seconds
	HangS     int   // per-case watchdog
	RaceS     int   // auxiliary race leg seconds (0 = none)
	MinBudget int
}

var tiers = map[string]map[string]tierCfg{
	"C13": {"quick": {200000, 25, 20, 6, 1500}, "thorough": {20000000, 900, 30, 240, 4000}},
	"C12": {"quick": {150000, 25, 20, 0, 1500}, "thorough": {4000000, 900, 30, 0, 4000}},
	"C02": {"quick": {60000, 30, 20, 6, 600}, "thorough": {15000000, 1200, 30, 180, 1500}},
	"C16": {"quick": {24000, 30, 20, 8, 600}, "thorough": {3000000, 1200, 30, 300, 1500}},
	"C14": {"quick": {12000, 25, 20, 6, 600}, "thorough": {1000000, 900, 30, 240, 1500}},
	"C09": {"quick": {200000, 25, 20, 6, 1000}, "thorough": {20000000, 900, 30, 240, 3000}},
	"C01": {"quick": {80000, 25, 20, 5, 1000}, "thorough": {20000000, 900, 30, 240, 3000}},
}

// expectedProbes: reach counters that must not stay at zero in a sweep; a probe stuck at zero
// means the workload or the fault mix has to change (reported in the evidence, never a verdict).
var expectedProbes = map[string][]string{
	"C13": {"lock", "rlock", "access", "lock_blocked", "rlock_blocked", "history_ops"},
	"C12": {"access", "ext_fault_fired", "ext_lookup_hit", "ext_lookup_miss", "ops", "scopes"},
	"C02": {"cancel_delivered", "cancel_before_first_statement", "cancel_while_blocked_in_channel_op", "cancel_at_quiescence_with_several_blocked_tasks",
		"cancel_with_script_goroutines", "main_returned_interrupted", "sleep", "spawn", "select", "ticks"},
	"C16": {"spawn", "select", "sleep", "epilogue_checked", "items_delivered"},
	"C14": {"concurrent_executions", "sequential_reruns", "lock", "rlock", "access"},
	"C09": {"fault_fired_panic-string", "fault_fired_panic-error", "fault_fired_panic-value", "fault_fired_runtime-error", "fault_fired_error-result",
		"passed_unspecified_point", "control_flow_left_a_try_body", "uncaught_error_expected", "host_calls"},
	"C01": {"fault_fired_panic-string", "fault_fired_panic-error", "fault_fired_panic-value", "fault_fired_runtime-error", "fault_fired_error-result",
		"fault_fired_nil-func", "fault_fired_close-chan", "fault_fired_cancel", "fault_fired_panic-typed-nil-error", "fault_fired_panic-nil", "fault_fired_panic-unhashable-error", "fault_fired_panic-unhashable-value",
		"fault_with_script_goroutines", "ctx_mode_0", "ctx_mode_1", "ctx_mode_2", "spawn", "select"},
}

// subSweeps: a check may consist of several case families, each registered under its own worker id.
// C09I = C02's programs with the injected cancellation, judged for C09's "deferred calls run on every exit".
var subSweeps = map[string][]string{"C09": {"C09", "C09I"}}

var raceProps = map[string]bool{"C13": true, "C14": true, "C16": true, "C02": true, "C01": true, "C09": true}

// plainRealLeg: the real-thread leg of these properties is built without the race detector: what it judges is
// whether the process survives, not whether memory accesses are ordered.
var plainRealLeg = map[string]bool{"C01": true}

type aggT struct {
	Evals     int64            `json:"evals"`
	Steps     int64            `json:"steps"`
	Switches  int64            `json:"switches"`
	Contended int64            `json:"contended"`
	FakeNs    int64            `json:"fake_ns"`
	Tasks     int64            `json:"tasks"`
	Inconcl   int64            `json:"inconclusive"`
	Leaked    int64            `json:"leaked"`
	Outcomes  map[string]int64 `json:"outcomes"`
	Counters  map[string]int64 `json:"counters"`
	InconclEx []string         `json:"inconclusive_examples,omitempty"`
}

type line struct {
	Kind    string          `json:"kind"`
	Seed    int64           `json:"seed"`
	Res     *harness.Result `json:"res,omitempty"`
	Case    *harness.Case   `json:"case,omitempty"`
	Agg     *aggT           `json:"agg,omitempty"`
	Runs    int             `json:"runs,omitempty"`
	Elapsed float64         `json:"elapsed_s,omitempty"`
}

type knownFile struct {
	Findings []struct {
		Property string `json:"property"`
		Class    string `json:"class"`
		SigRegex string `json:"signature_regex"`
		What     string `json:"what"`
	} `json:"findings"`
	Fixed []string `json:"fixed"`
}

// verifDir is where the driver was started (the check script cds to its own directory: /verif, or a snapshot of it)
var verifDir = func() string {
	d, err := os.Getwd()
	if err != nil {
		return "/verif"
	}
	return d
}()

const goBin = "go1.26.8"

var scratch string

// replayDir: where replay files go (tools/regress.sh separates parallel jobs with VERIF_REPLAY_DIR).
func replayDir() string {
	if v := os.Getenv("VERIF_REPLAY_DIR"); v != "" {
		return v
	}
	return filepath.Join(verifDir, "replays")
}

// repoDir is the tree that is checked: /repo, or a scratch worktree named by
// VERIF_REPO (overlaid onto /repo at build time; /repo itself is not touched).
var repoDir = func() string {
	if v := os.Getenv("VERIF_REPO"); v != "" {
		return v
	}
	return "/repo"
}()
var workerProcs = "1"

func goEnv() []string {
	env := os.Environ()
	env = append(env, "GOFLAGS=-mod=mod", "GOPROXY=off", "GOSUMDB=off", "GOTOOLCHAIN=local", "CGO_ENABLED=1")
	return env
}

// modArgs: when another tree than /repo is checked (VERIF_REPO), the harness module is built with a scratch copy of
// its go.mod whose replace directive points at that tree, so that the tree's own go.mod (language version, loop
// variable semantics) governs its packages. /repo's files are not involved at all then.
func modArgs() []string {
	if repoDir == "/repo" {
		return nil
	}
	mod := filepath.Join(scratch, "go.mod")
	if _, err := os.Stat(mod); err != nil {
		b, err := os.ReadFile(filepath.Join(verifDir, "go.mod"))
		if err != nil {
			die2("cannot read the harness go.mod: %v", err)
		}
		nb := strings.Replace(string(b), "=> /repo", "=> "+repoDir, 1)
		if nb == string(b) {
			die2("the harness go.mod has no replace directive for /repo")
		}
		os.WriteFile(mod, []byte(nb), 0o644)
		if sb, err := os.ReadFile(filepath.Join(verifDir, "go.sum")); err == nil {
			os.WriteFile(filepath.Join(scratch, "go.sum"), sb, 0o644)
		}
	}
	return []string{"-modfile", mod}
}

func goArgs(first string, rest ...string) []string {
	return append(append([]string{first}, modArgs()...), rest...)
}

func die2(format string, a ...any) {
	fmt.Fprintf(os.Stderr, "check: "+format+"\n", a...)
	cleanup()
	os.Exit(2)
}

func cleanup() {
	if scratch != "" && os.Getenv("VERIF_KEEP_SCRATCH") == "" {
		os.RemoveAll(scratch)
	}
}

func runCmd(dir string, env []string, name string, args ...string) (string, error) {
	cmd := exec.Command(name, args...)
	cmd.Dir = dir
	cmd.Env = env
	out, err := cmd.CombinedOutput()
	return string(out), err
}

func main() {
	tier := flag.String("tier", "", "quick | thorough (default: $VERIF_TIER or quick)")
	replay := flag.String("replay", "", "replay a case file instead of sweeping")
	countF := flag.Int64("count", 0, "override number of cases")
	wallF := flag.Int("wall", 0, "override sweep wall budget (s)")
	workersF := flag.Int("workers", 0, "worker processes (default: cores)")
	noRace := flag.Bool("norace", false, "skip the auxiliary race leg")
	dumpLog := flag.Bool("log", false, "with --replay: print the full event log")
	flag.Usage = func() {
		fmt.Fprintln(os.Stderr, "usage: check <property-id> [--tier quick|thorough] [--replay file]")
	}
	if len(os.Args) < 2 {
		flag.Usage()
		os.Exit(2)
	}
	prop := os.Args[1]
	flag.CommandLine.Parse(os.Args[2:])
	if prop == "selftest" {
		os.Exit(selftest(flag.Args()))
	}
	if *tier == "" {
		*tier = os.Getenv("VERIF_TIER")
	}
	if *tier == "" {
		*tier = "quick"
	}
	cfgs, ok := tiers[prop]
	if !ok {
		die2("unknown property %q", prop)
	}
	cfg, ok := cfgs[*tier]
	if !ok {
		die2("unknown tier %q", *tier)
	}
	if *countF > 0 {
		cfg.Count = *countF
	}
	if *wallF > 0 {
		cfg.WallS = *wallF
	}
	if *noRace {
		cfg.RaceS = 0
	}
	seed := int64(1)
	if v := os.Getenv("VERIF_SEED"); v != "" {
		if n, err := strconv.ParseInt(v, 10, 64); err == nil {
			seed = n
		}
	}
	if v := os.Getenv("VERIF_WORKER_GOMAXPROCS"); v != "" {
		workerProcs = v
	}
	workers := runtime.NumCPU()
	if *workersF > 0 {
		workers = *workersF
	}
	start := time.Now()

	// scratch outside /repo and /verif
	var err error
	scratch, err = os.MkdirTemp("", "verifsim-"+prop+"-")
	if err != nil {
		die2("mktemp: %v", err)
	}
	defer cleanup()

	// 1. rewrite + build from /repo's current working tree
	if out, err := runCmd(verifDir, goEnv(), goBin, "run", "./verifgen", "-repo", repoDir, "-target", repoDir, "-out", scratch); err != nil {
		die2("verifgen failed: %v\n%s", err, out)
	}
	bin := filepath.Join(scratch, "worker.test")
	if out, err := runCmd(verifDir, goEnv(), goBin, goArgs("test", "-c", "-overlay", filepath.Join(scratch, "overlay.json"), "-o", bin, "./worker")...); err != nil {
		die2("building the worker against %s failed (exit 2, not a violation): %v\n%s", repoDir, err, out)
	}
	var genReport map[string]any
	if b, err := os.ReadFile(filepath.Join(scratch, "verifgen_report.json")); err == nil {
		json.Unmarshal(b, &genReport)
	}
	known := loadKnown()

	if *replay != "" {
		if abs, err := filepath.Abs(*replay); err == nil {
			*replay = abs
		}
		os.Exit(doReplay(prop, bin, *replay, known, *dumpLog))
	}

	// 2. sweep
	base := seed << 20
	deadline := time.Now().Add(time.Duration(cfg.WallS) * time.Second)
	subs := subSweeps[prop]
	if len(subs) == 0 {
		subs = []string{prop}
	}
	var sw *sweepResult
	for si, sp := range subs {
		scfg := cfg
		if si > 0 {
			// the secondary family gets a quarter of the case budget and of the wall clock
			scfg.Count = cfg.Count / 4
			deadline = time.Now().Add(time.Duration(cfg.WallS/4+5) * time.Second)
		}
		one := sweep(sp, *tier, bin, base, scfg, workers, deadline)
		for _, v := range one.violations {
			v.wprop = sp
		}
		for _, v := range one.knownCands {
			v.wprop = sp
		}
		if sw == nil {
			sw = one
		} else {
			sw.merge(one)
		}
	}

	// 3. auxiliary race leg
	raceInfo := map[string]any{}
	var raceViol *violation
	if raceProps[prop] && cfg.RaceS > 0 {
		raceViol = raceLeg(prop, *tier, seed, cfg.RaceS, raceInfo)
	}

	// 4. violations: minimise, confirm in a fresh process, match known findings
	exit := 0
	var viols []*violation
	viols = append(viols, sw.violations...)
	{
		byClass := map[string]*violation{}
		for _, v := range sw.knownCands {
			if g, ok := byClass[v.res.Violation]; !ok || v.seed < g.seed {
				byClass[v.res.Violation] = v
			}
		}
		for _, v := range byClass {
			v.res.Signature = "known-candidate:" + v.res.Violation
			viols = append(viols, v)
		}
	}
	reported := 0
	knownPrinted := map[string]bool{}
	groups := map[string]*violation{}
	var order []string
	for _, v := range viols {
		k := v.res.Violation + "|" + v.res.Signature
		if g, ok := groups[k]; !ok || v.seed < g.seed {
			if !ok {
				order = append(order, k)
			}
			groups[k] = v
		}
	}
	sort.Strings(order)
	nConfirmed := 0
	// A group whose minimised case does not fail again in a fresh process (nor with its worker's history, nor in
	// any of nine replays) is not reported - and it must not hide the other groups either: state that lives in the
	// process of the code under test (a registry keyed by addresses, say) combined with this harness killing the
	// tasks of a finished case can produce such unrepeatable failures next to a perfectly repeatable one.
	// Verdict rule: if at least one group is confirmed and reported, that is the verdict; if none is and some
	// group could not be reproduced, the run ends as trouble (exit 2), never as a VIOLATION.
	var unconfirmed []string
	for _, k := range order {
		if nConfirmed >= 6 || len(unconfirmed) >= 4 {
			break
		}
		v := groups[k]
		mc, mr := v.c, v.res
		if !v.hang {
			mc, mr = minimise(wp(v, prop), bin, v, cfg)
		}
		mc.Expect = mr
		path := filepath.Join(replayDir(), fmt.Sprintf("%s-%d.json", wp(v, prop), v.seed))
		b, _ := json.MarshalIndent(mc, "", " ")
		os.MkdirAll(filepath.Dir(path), 0o755)
		os.WriteFile(path, b, 0o644)
		// fresh-process confirmation
		rr, hung, err := replayOnce(wp(v, prop), bin, path, cfg.HangS)
		if err != nil {
			die2("replay of %s failed to run: %v", path, err)
		}
		same := (hung && v.hang) || (rr != nil && rr.Violation == mr.Violation)
		if !same && !v.hang {
			// The case alone does not fail in a fresh process. Before blaming the harness, check whether
			// the failure depends on what the same worker process ran before it (state that lives in the
			// process: a cache, a registry): re-run that worker's exact seed sequence up to this seed.
			hist := historySpec{Base: base, Offset: (v.seed - base) % int64(workers), Stride: int64(workers), Upto: v.seed, Tier: *tier}
			if hr := replayHistory(wp(v, prop), bin, hist, cfg); hr != nil && hr.Violation == v.res.Violation {
				hb, _ := json.MarshalIndent(map[string]any{"property": prop, "history": hist, "case": v.c, "expected_result": hr,
					"note": "the violation depends on the cases the same worker process ran before this one (process-wide state); replay re-runs that exact seed sequence"}, "", " ")
				os.WriteFile(path, hb, 0o644)
				hr.Detail = "[depends on earlier cases of the same process: replay re-runs seeds " + fmt.Sprintf("%d, %d, ... %d", hist.Base+hist.Offset, hist.Base+hist.Offset+hist.Stride, hist.Upto) + "]\n" + hr.Detail
				mr, same = hr, true
			}
		}
		if !same && !v.hang {
			// Last resort before giving up: the code under test may itself contain a source of randomness the
			// simulator does not own (Go's randomised map iteration reached through a new code path, say). Then
			// the same case fails in some fresh processes and not in others. Re-run it a few more times; if the
			// violation shows again it is reported, and the report says that it does not replay exactly.
			again := 0
			classes := map[string]int{}
			if rr != nil && rr.Violation != "" {
				again++
				classes[rr.Violation]++
			}
			const extra = 8
			for k := 0; k < extra; k++ {
				r2, _, e2 := replayOnce(wp(v, prop), bin, path, cfg.HangS)
				if e2 == nil && r2 != nil && r2.Violation != "" {
					again++
					classes[r2.Violation]++
				}
			}
			if again > 0 {
				mr.Detail = fmt.Sprintf("[does NOT replay exactly: the minimised case violated the property in %d of %d fresh-process replays (classes seen: %v; the sweep saw %s); the code under test has a source of nondeterminism the simulator does not own]\n", again, extra+1, classes, mr.Violation) + mr.Detail
				same = true
			}
		}
		if !same {
			got := "hang"
			if rr != nil {
				got = rr.Violation
			}
			unconfirmed = append(unconfirmed, fmt.Sprintf("fresh-process replay of %s gave %q, sweep gave %q", path, got, mr.Violation))
			continue
		}
		nConfirmed++
		if kf := matchKnown(known, prop, mr); kf != "" {
			if !knownPrinted[kf] {
				fmt.Printf("KNOWN-FINDING: property=%s %s\n", prop, kf)
				knownPrinted[kf] = true
			}
			os.Remove(path)
			continue
		}
		fmt.Printf("VIOLATION property=%s replay=%s\n", prop, path)
		fmt.Printf("  class: %s\n  %s\n", mr.Violation, indent(mr.Detail))
		reported++
		exit = 1
	}
	if raceViol != nil {
		path := filepath.Join(replayDir(), fmt.Sprintf("%s-race-%d.json", prop, seed))
		b, _ := json.MarshalIndent(map[string]any{"property": prop, "race_leg": true, "seed": seed, "report": raceViol.res.Detail, "case": raceViol.c}, "", " ")
		os.WriteFile(path, b, 0o644)
		if kf := matchKnown(known, prop, raceViol.res); kf != "" {
			fmt.Printf("KNOWN-FINDING: property=%s %s\n", prop, kf)
		} else {
			fmt.Printf("VIOLATION property=%s replay=%s\n", prop, path)
			fmt.Printf("  class: %s\n  %s\n", raceViol.res.Violation, indent(raceViol.res.Detail))
			reported++
			exit = 1
		}
	}
	if len(unconfirmed) > 0 {
		if exit == 0 {
			writeEvidence(prop, *tier, seed, sw, cfg, workers, genReport, raceInfo, reported, len(knownPrinted), time.Since(start))
			die2("DETERMINISM BUG in the harness (or process-wide state in the code under test): %s", strings.Join(unconfirmed, "; "))
		}
		fmt.Printf("note: %d further violation group(s) of the sweep did not fail again in a fresh process and are not reported: %s\n", len(unconfirmed), strings.Join(unconfirmed, "; "))
	}
	if sw.trouble != "" && exit == 0 {
		writeEvidence(prop, *tier, seed, sw, cfg, workers, genReport, raceInfo, reported, len(knownPrinted), time.Since(start))
		die2("%s", sw.trouble)
	}

	writeEvidence(prop, *tier, seed, sw, cfg, workers, genReport, raceInfo, reported, len(knownPrinted), time.Since(start))
	fmt.Printf("%s %s: %d cases, %d distinct non-trivial, %d steps, %d violations reported, %d known findings, %.1fs\n",
		prop, *tier, sw.evals, sw.nShapes, sw.steps, reported, len(knownPrinted), time.Since(start).Seconds())
	cleanup()
	os.Exit(exit)
}

func indent(s string) string { return strings.ReplaceAll(s, "\n", "\n  ") }

func wp(v *violation, prop string) string {
	if v.wprop != "" {
		return v.wprop
	}
	return prop
}

func loadKnown() *knownFile {
	var k knownFile
	b, err := os.ReadFile(filepath.Join(verifDir, "known_findings.json"))
	if err != nil {
		return &k
	}
	if err := json.Unmarshal(b, &k); err != nil {
		die2("known_findings.json: %v", err)
	}
	return &k
}

func matchKnown(k *knownFile, prop string, r *harness.Result) string {
	for _, f := range k.Findings {
		if f.Property != prop {
			continue
		}
		if f.Class != "" && f.Class != r.Violation {
			continue
		}
		if f.SigRegex != "" {
			re, err := regexp.Compile(f.SigRegex)
			if err != nil || !re.MatchString(r.Signature) {
				continue
			}
		}
		return f.What
	}
	return ""
}

// historySpec names the exact seed sequence one worker process ran.
type historySpec struct {
	Base   int64  `json:"base"`
	Offset int64  `json:"offset"`
	Stride int64  `json:"stride"`
	Upto   int64  `json:"upto_seed"`
	Tier   string `json:"tier"`
}

// replayHistory re-runs a worker's seed sequence up to and including Upto in a fresh process and
// returns the result recorded for Upto if it is a violation.
func replayHistory(prop, bin string, h historySpec, cfg tierCfg) *harness.Result {
	out := filepath.Join(scratch, fmt.Sprintf("hist.%d.jsonl", h.Upto))
	extra := []string{
		fmt.Sprintf("VERIF_SEED_BASE=%d", h.Base), fmt.Sprintf("VERIF_COUNT=%d", h.Upto-h.Base+1),
		fmt.Sprintf("VERIF_OFFSET=%d", h.Offset), fmt.Sprintf("VERIF_STRIDE=%d", h.Stride), "VERIF_MODE=sweep", "VERIF_MAX_VIOL=1000000",
	}
	p := startWorker(prop, h.Tier, bin, extra, out, out+".hb")
	p.wait(cfg.HangS * 3)
	var res *harness.Result
	readLines(out, func(l *line) {
		if l.Kind == "violation" && l.Seed == h.Upto {
			res = l.Res
		}
	})
	return res
}

type violation struct {
	wprop string // worker id of the case family (usually the property id)
	seed  int64
	c     *harness.Case
	res   *harness.Result
	hang  bool
}

type sweepResult struct {
	evals            int64
	steps            int64
	switches         int64
	contended        int64
	fakeNs           int64
	tasks            int64
	shapes           map[string]struct{}
	traces           map[string]struct{}
	counters         map[string]int64
	outcomes         map[string]int64
	inconcl          int64
	leaked           int64
	samples          []any
	violations       []*violation
	trouble          string
	wall             float64
	nviolRaw         int64
	nknownCand       int64
	knownCands       []*violation
	nShapes          int
	nTraces          int
	unconfirmedHangs int
	inconclEx        []string
}

func (a *sweepResult) merge(b *sweepResult) {
	a.evals += b.evals
	a.steps += b.steps
	a.switches += b.switches
	a.contended += b.contended
	a.fakeNs += b.fakeNs
	a.tasks += b.tasks
	a.inconcl += b.inconcl
	a.leaked += b.leaked
	a.nShapes += b.nShapes
	a.nTraces += b.nTraces
	a.nviolRaw += b.nviolRaw
	a.nknownCand += b.nknownCand
	a.unconfirmedHangs += b.unconfirmedHangs
	a.wall += b.wall
	for k, v := range b.outcomes {
		a.outcomes[k] += v
	}
	for k, v := range b.counters {
		if strings.HasSuffix(k, "_max") {
			if v > a.counters[k] {
				a.counters[k] = v
			}
			continue
		}
		a.counters[k] += v
	}
	a.violations = append(a.violations, b.violations...)
	a.knownCands = append(a.knownCands, b.knownCands...)
	a.inconclEx = append(a.inconclEx, b.inconclEx...)
	if len(a.samples) < 4 && len(b.samples) > 0 {
		a.samples = append(a.samples, b.samples[0])
	}
	if a.trouble == "" {
		a.trouble = b.trouble
	}
}

func appendHashes(dst []uint64, path string) []uint64 {
	b, err := os.ReadFile(path)
	if err != nil {
		return dst
	}
	for i := 0; i+8 <= len(b); i += 8 {
		dst = append(dst, binary.LittleEndian.Uint64(b[i:]))
	}
	return dst
}

func countDistinct(h []uint64) int {
	if len(h) == 0 {
		return 0
	}
	sort.Slice(h, func(i, j int) bool { return h[i] < h[j] })
	n := 1
	for i := 1; i < len(h); i++ {
		if h[i] != h[i-1] {
			n++
		}
	}
	return n
}

type proc struct {
	cmd      *exec.Cmd
	out      string
	hb       string
	lastHB   string
	lastChg  time.Time
	cpuAtChg float64
	doneCh   chan struct{}
	err      error
}

func (p *proc) isDone() bool {
	select {
	case <-p.doneCh:
		return true
	default:
		return false
	}
}

func startWorker(prop, tier, bin string, extra []string, out, hb string) *proc {
	cmd := exec.Command(bin, "-test.run", "^TestWorker$", "-test.timeout", "0")
	cmd.Dir = scratch
	cmd.Env = append(goEnv(), "VERIF_PROP="+prop, "VERIF_TIER="+tier, "VERIF_OUT="+out, "VERIF_HEARTBEAT="+hb, "GOMAXPROCS="+workerProcs)
	cmd.Env = append(cmd.Env, extra...)
	cmd.SysProcAttr = &syscall.SysProcAttr{Setpgid: true}
	logf, _ := os.Create(out + ".stderr")
	cmd.Stdout = logf
	cmd.Stderr = logf
	p := &proc{cmd: cmd, out: out, hb: hb, lastChg: time.Now(), doneCh: make(chan struct{})}
	if err := cmd.Start(); err != nil {
		p.err = err
		close(p.doneCh)
		return p
	}
	go func() {
		p.err = cmd.Wait()
		logf.Close()
		close(p.doneCh)
	}()
	return p
}

func (p *proc) kill() {
	if p.cmd.Process != nil {
		syscall.Kill(-p.cmd.Process.Pid, syscall.SIGKILL)
	}
}

// wait polls until the process ends or its heartbeat stalls for hangS seconds.
func (p *proc) wait(hangS int) (hung bool) {
	// the processes are waited for one after the other: the stall clock of this one starts now
	p.lastChg = time.Now()
	if p.cmd.Process != nil {
		p.cpuAtChg = cpuSeconds(p.cmd.Process.Pid)
	}
	for !p.isDone() {
		time.Sleep(50 * time.Millisecond)
		if rssMB(p.cmd.Process.Pid) > 6000 {
			p.lastHB += " memory-exhausted"
			p.kill()
			<-p.doneCh
			return true
		}
		b, _ := os.ReadFile(p.hb)
		if s := strings.TrimSpace(string(b)); s != p.lastHB && s != "" {
			p.lastHB, p.lastChg = s, time.Now()
			p.cpuAtChg = cpuSeconds(p.cmd.Process.Pid)
		} else if stalled := time.Since(p.lastChg); (stalled > time.Duration(hangS)*time.Second && cpuSeconds(p.cmd.Process.Pid)-p.cpuAtChg > float64(hangS)/2) ||
			stalled > time.Duration(hangS*8)*time.Second {
			// A stall is measured in the worker's own CPU time, so that a machine busy with other work
			// cannot make a healthy worker look hung: a spinning task burns CPU without moving the
			// heartbeat; a worker that got no CPU did not stall. A worker blocked without burning CPU
			// (a deadlock of real locks) is given eight times the period.
			// SIGQUIT makes the Go runtime print every goroutine's stack before it exits: that tells a
			// task spinning inside the interpreter from a stall of the harness itself
			if p.cmd.Process != nil {
				syscall.Kill(p.cmd.Process.Pid, syscall.SIGQUIT)
				for i := 0; i < 40 && !p.isDone(); i++ {
					time.Sleep(50 * time.Millisecond)
				}
			}
			p.kill()
			<-p.doneCh
			return true
		}
	}
	return false
}

// cpuSeconds: user+system CPU time of the process and its threads so far.
func cpuSeconds(pid int) float64 {
	b, err := os.ReadFile(fmt.Sprintf("/proc/%d/stat", pid))
	if err != nil {
		return 0
	}
	s := string(b)
	if i := strings.LastIndexByte(s, ')'); i >= 0 {
		s = s[i+1:]
	}
	f := strings.Fields(s)
	if len(f) < 14 {
		return 0
	}
	ut, _ := strconv.ParseFloat(f[11], 64)
	st, _ := strconv.ParseFloat(f[12], 64)
	return (ut + st) / 100
}

func rssMB(pid int) int {
	b, err := os.ReadFile(fmt.Sprintf("/proc/%d/statm", pid))
	if err != nil {
		return 0
	}
	f := strings.Fields(string(b))
	if len(f) < 2 {
		return 0
	}
	n, _ := strconv.Atoi(f[1])
	return n * 4096 / (1 << 20)
}

func readLines(path string, fn func(l *line)) {
	f, err := os.Open(path)
	if err != nil {
		return
	}
	defer f.Close()
	sc := bufio.NewScanner(f)
	sc.Buffer(make([]byte, 1<<20), 1<<28)
	for sc.Scan() {
		var l line
		if json.Unmarshal(sc.Bytes(), &l) == nil && l.Kind != "" {
			fn(&l)
		}
	}
}

func sweep(prop, tier, bin string, base int64, cfg tierCfg, workers int, deadline time.Time) *sweepResult {
	sr := &sweepResult{shapes: map[string]struct{}{}, traces: map[string]struct{}{}, counters: map[string]int64{}, outcomes: map[string]int64{}}
	t0 := time.Now()
	var procs []*proc
	for w := 0; w < workers; w++ {
		extra := []string{
			fmt.Sprintf("VERIF_SEED_BASE=%d", base),
			fmt.Sprintf("VERIF_COUNT=%d", cfg.Count),
			fmt.Sprintf("VERIF_OFFSET=%d", w),
			fmt.Sprintf("VERIF_STRIDE=%d", workers),
			fmt.Sprintf("VERIF_DEADLINE=%d", deadline.Unix()),
			"VERIF_MODE=sweep",
		}
		if w == 0 {
			extra = append(extra, "VERIF_SAMPLES=3")
		}
		procs = append(procs, startWorker(prop, tier, bin, extra,
			filepath.Join(scratch, fmt.Sprintf("out.%d.jsonl", w)), filepath.Join(scratch, fmt.Sprintf("hb.%d", w))))
	}
	type hangInfo struct {
		w    int
		beat string
	}
	var hangs []hangInfo
	// every worker has a watcher of its own from the start: a stall is timed from the worker's own last heartbeat,
	// and sixteen workers that all block (a real deadlock in the code under test) are given up after one stall
	// period, not after sixteen
	hungW := make([]bool, len(procs))
	var wwg sync.WaitGroup
	for w, p := range procs {
		wwg.Add(1)
		go func(w int, p *proc) {
			defer wwg.Done()
			hungW[w] = p.wait(cfg.HangS)
		}(w, p)
	}
	wwg.Wait()
	for w, p := range procs {
		if hungW[w] {
			hangs = append(hangs, hangInfo{w, p.lastHB})
		} else if p.err != nil {
			b, _ := os.ReadFile(p.out + ".stderr")
			tail := string(b)
			if len(tail) > 3000 {
				tail = tail[len(tail)-3000:]
			}
			// a worker that dies is either a harness bug or a crash of the
			// interpreter that escaped every recover (C01): the heartbeat tells which case.
			hangs = append(hangs, hangInfo{w, "crashed " + p.lastHB + "\n" + tail})
		}
	}
	var shapeHashes, traceHashes []uint64
	for w := range procs {
		readLines(filepath.Join(scratch, fmt.Sprintf("out.%d.jsonl", w)), func(l *line) {
			switch l.Kind {
			case "agg":
				g := l.Agg
				sr.evals += g.Evals
				sr.steps += g.Steps
				sr.switches += g.Switches
				sr.contended += g.Contended
				sr.fakeNs += g.FakeNs
				sr.tasks += g.Tasks
				sr.inconcl += g.Inconcl
				sr.leaked += g.Leaked
				for k, v := range g.Outcomes {
					sr.outcomes[k] += v
				}
				for k, v := range g.Counters {
					if strings.HasSuffix(k, "_max") {
						if v > sr.counters[k] {
							sr.counters[k] = v
						}
						continue
					}
					sr.counters[k] += v
				}
				for _, ex := range g.InconclEx {
					if len(sr.inconclEx) < 5 {
						sr.inconclEx = append(sr.inconclEx, ex)
					}
				}
			case "case", "violation", "known-candidate":
				r := l.Res
				if l.Kind == "violation" {
					sr.nviolRaw++
					sr.violations = append(sr.violations, &violation{seed: l.Seed, c: l.Case, res: r})
				} else if l.Kind == "known-candidate" {
					sr.nknownCand++
					if l.Case != nil {
						r.Signature = "known-candidate " + r.Signature
						sr.knownCands = append(sr.knownCands, &violation{seed: l.Seed, c: l.Case, res: r})
					}
				} else if l.Case != nil && len(sr.samples) < 3 {
					sr.samples = append(sr.samples, map[string]any{"case": l.Case, "result": r})
				}
			}
		})
		shapeHashes = appendHashes(shapeHashes, filepath.Join(scratch, fmt.Sprintf("out.%d.jsonl.shapes", w)))
		traceHashes = appendHashes(traceHashes, filepath.Join(scratch, fmt.Sprintf("out.%d.jsonl.traces", w)))
	}
	sr.nShapes = countDistinct(shapeHashes)
	sr.nTraces = countDistinct(traceHashes)
	sr.wall = time.Since(t0).Seconds()
	if len(sr.samples) == 0 && len(sr.violations) > 0 {
		sr.samples = append(sr.samples, map[string]any{"case": sr.violations[0].c, "result": sr.violations[0].res})
	}
	// hangs / crashes: re-run the single case in a fresh process
	for hi, h := range hangs {
		if hi >= 2 {
			// every worker usually stops at its own first hanging case: two confirmations are enough
			sr.unconfirmedHangs++
			continue
		}
		seedStr := ""
		if m := regexp.MustCompile(`seed (-?\d+)`).FindStringSubmatch(h.beat); m != nil {
			seedStr = m[1]
		}
		if seedStr == "" {
			sr.trouble = fmt.Sprintf("worker %d died or hung before its first case: %s", h.w, h.beat)
			continue
		}
		sd, _ := strconv.ParseInt(seedStr, 10, 64)
		v := confirmHang(prop, tier, bin, sd, cfg, h.beat)
		if v != nil {
			sr.violations = append(sr.violations, v)
		} else {
			sr.trouble = fmt.Sprintf("worker %d stopped at seed %d (%s) but the case neither hangs nor crashes when re-run alone", h.w, sd, firstLine(h.beat))
			if hangTrouble != "" {
				sr.trouble = fmt.Sprintf("worker %d stalled at seed %d: %s", h.w, sd, hangTrouble)
			}
		}
	}
	return sr
}

func firstLine(s string) string {
	if i := strings.IndexByte(s, '\n'); i >= 0 {
		return s[:i]
	}
	return s
}

// confirmHang regenerates the case for seed, re-runs it alone under the
// watchdog and classifies: a repeatable hang after the cancel was delivered or
// a repeatable process crash is a violation; anything else is trouble.
func confirmHang(prop, tier, bin string, seed int64, cfg tierCfg, beat string) *violation {
	genOut := filepath.Join(scratch, fmt.Sprintf("gen.%d.jsonl", seed))
	p := startWorker(prop, tier, bin, []string{"VERIF_MODE=gen", fmt.Sprintf("VERIF_SEED_BASE=%d", seed)}, genOut, genOut+".hb")
	p.wait(cfg.HangS)
	var c *harness.Case
	readLines(genOut, func(l *line) {
		if l.Case != nil {
			c = l.Case
		}
	})
	if c == nil {
		return nil
	}
	path := filepath.Join(scratch, fmt.Sprintf("hangcase.%d.json", seed))
	b, _ := json.Marshal(c)
	os.WriteFile(path, b, 0o644)
	out := filepath.Join(scratch, fmt.Sprintf("hangreplay.%d.jsonl", seed))
	rp := startWorker(prop, tier, bin, []string{"VERIF_MODE=replay", "VERIF_CASE=" + path}, out, out+".hb")
	hung := rp.wait(cfg.HangS)
	if !hung && rp.err == nil {
		// the sweep also runs the case without the constructs behind known findings: the stall may be there
		sout := filepath.Join(scratch, fmt.Sprintf("strip.%d.jsonl", seed))
		sp := startWorker(prop, tier, bin, []string{"VERIF_MODE=strip", "VERIF_CASE=" + path}, sout, sout+".hb")
		sp.wait(cfg.HangS)
		var sc *harness.Case
		readLines(sout, func(l *line) {
			if l.Case != nil {
				sc = l.Case
			}
		})
		if sc != nil {
			c = sc
			b, _ := json.Marshal(c)
			os.WriteFile(path, b, 0o644)
			out = filepath.Join(scratch, fmt.Sprintf("hangreplay2.%d.jsonl", seed))
			rp = startWorker(prop, tier, bin, []string{"VERIF_MODE=replay", "VERIF_CASE=" + path}, out, out+".hb")
			hung = rp.wait(cfg.HangS)
		}
	}
	if hung {
		if spin := spinningInInterpreter(out + ".stderr"); spin != "" && !strings.Contains(rp.lastHB, "cancel-delivered") {
			// no yield point was reached for the whole watchdog period although a goroutine is running
			// interpreter code: every statement and every loop iteration is a context poll (= a yield),
			// so this script cannot observe a cancellation
			return &violation{seed: seed, c: c, hang: true, res: &harness.Result{Violation: "hang", Signature: "hang: spins without polling the context",
				Detail: "a script goroutine runs interpreter code without ever polling its context (no yield point reached within the watchdog period); running goroutine:\n" + spin}}
		}
		if strings.Contains(rp.lastHB, "cancel-delivered") || strings.Contains(rp.lastHB, "must-finish") {
			// nobody runs interpreter code: somebody inside the bubble is blocked on something the simulator does
			// not own (a channel made outside the bubble, a real mutex). Whether that is the property's business
			// depends on WHO is blocked: a goroutine in the middle of evaluating a script (frames of runInfoStruct)
			// is a script that cannot be interrupted; a helper goroutine of the implementation parked between two
			// jobs (a worker pool, a registry sweeper) is a limit of this harness, not a verdict.
			kind, blk := blockedOutsideTheSimulation(out + ".stderr")
			switch kind {
			case "script":
				return &violation{seed: seed, c: c, hang: true, res: &harness.Result{Violation: "hang", Signature: "hang: script blocked uninterruptibly",
					Detail: "after the cancel was delivered a goroutine stays blocked in the middle of evaluating a script, in an operation that does not watch its context (not a channel operation of the script: those are owned by the simulator):\n" + blk}}
			case "helper":
				hangTrouble = "the tree parks helper goroutines of its own on a primitive the simulator does not own (created outside the simulation; no script is being evaluated by the blocked goroutine), so simulated runs never reach quiescence: no verdict from the simulation on this tree; blocked goroutine:\n" + blk
				return nil
			}
			return &violation{seed: seed, c: c, hang: true, res: &harness.Result{Violation: "hang", Signature: "hang:" + rp.lastHB,
				Detail: "the case never reaches quiescence again (a task spins without polling its context): " + rp.lastHB}}
		}
		return nil
	}
	if rp.err != nil {
		b, _ := os.ReadFile(out + ".stderr")
		tail := string(b)
		if len(tail) > 4000 {
			tail = tail[:4000]
		}
		if strings.Contains(tail, "panic:") || strings.Contains(tail, "fatal error:") {
			return &violation{seed: seed, c: c, hang: true, res: &harness.Result{Violation: "process-crash", Signature: "process-crash:" + crashSig(tail),
				Detail: "the worker process died while running this case:\n" + tail}}
		}
	}
	return nil
}

func crashSig(tail string) string {
	for _, ln := range strings.Split(tail, "\n") {
		if strings.HasPrefix(ln, "panic:") || strings.HasPrefix(ln, "fatal error:") {
			return ln
		}
	}
	return "unknown"
}

func minimise(prop, bin string, v *violation, cfg tierCfg) (*harness.Case, *harness.Result) {
	path := filepath.Join(scratch, fmt.Sprintf("min.in.%d.json", v.seed))
	b, _ := json.Marshal(v.c)
	os.WriteFile(path, b, 0o644)
	out := filepath.Join(scratch, fmt.Sprintf("min.out.%d.jsonl", v.seed))
	p := startWorker(prop, "", bin, []string{"VERIF_MODE=minimise", "VERIF_CASE=" + path, "VERIF_CLASS=" + v.res.Violation,
		fmt.Sprintf("VERIF_MIN_BUDGET=%d", cfg.MinBudget)}, out, out+".hb")
	// the minimiser beats once per candidate through the worker
	if p.wait(cfg.HangS*3) || p.err != nil {
		return v.c, v.res // keep the unminimised case
	}
	mc, mr := v.c, v.res
	readLines(out, func(l *line) {
		if l.Kind == "minimised" && l.Case != nil && l.Res != nil && l.Res.Violation == v.res.Violation {
			mc, mr = l.Case, l.Res
		}
	})
	return mc, mr
}

func replayOnce(prop, bin, path string, hangS int) (*harness.Result, bool, error) {
	out := filepath.Join(scratch, fmt.Sprintf("replay.%d.jsonl", time.Now().UnixNano()))
	p := startWorker(prop, "", bin, []string{"VERIF_MODE=replay", "VERIF_CASE=" + path}, out, out+".hb")
	if p.wait(hangS) {
		return nil, true, nil
	}
	var r *harness.Result
	readLines(out, func(l *line) {
		if l.Kind == "replay" {
			r = l.Res
		}
	})
	if r == nil {
		b, _ := os.ReadFile(out + ".stderr")
		if strings.Contains(string(b), "panic:") || strings.Contains(string(b), "fatal error:") {
			return &harness.Result{Violation: "process-crash", Signature: "process-crash:" + crashSig(string(b)), Detail: string(b)}, false, nil
		}
		return nil, false, fmt.Errorf("no replay record; stderr: %s", string(b))
	}
	return r, false, nil
}

func doReplay(prop, bin, path string, known *knownFile, dumpLog bool) int {
	b, err := os.ReadFile(path)
	if err != nil {
		die2("%v", err)
	}
	var probe struct {
		RaceLeg bool         `json:"race_leg"`
		History *historySpec `json:"history"`
	}
	json.Unmarshal(b, &probe)
	if probe.History != nil {
		cfg := tiers[prop]["quick"]
		r := replayHistory(prop, bin, *probe.History, cfg)
		if r == nil {
			fmt.Println("the recorded seed sequence runs clean on this tree")
			cleanup()
			return 0
		}
		if kf := matchKnown(known, prop, r); kf != "" {
			fmt.Printf("KNOWN-FINDING: property=%s %s\n", prop, kf)
			cleanup()
			return 0
		}
		fmt.Printf("VIOLATION property=%s replay=%s\n  class: %s\n  %s\n", prop, path, r.Violation, indent(r.Detail))
		cleanup()
		return 1
	}
	if probe.RaceLeg {
		info := map[string]any{}
		fixed := ""
		var pc struct {
			Case *harness.Case `json:"case"`
		}
		if json.Unmarshal(b, &pc) == nil && pc.Case != nil {
			fixed = path
		}
		v := raceLeg(prop, "quick", 1, 20, info, fixed)
		if v != nil {
			fmt.Printf("VIOLATION property=%s replay=%s\n  %s\n", prop, path, indent(v.res.Detail))
			cleanup()
			return 1
		}
		fmt.Println("race leg: no race reported in this (probabilistic) re-run")
		cleanup()
		return 0
	}
	wprop := prop
	var cprobe struct {
		Property string `json:"property"`
	}
	if json.Unmarshal(b, &cprobe) == nil && cprobe.Property != "" {
		for _, sp := range subSweeps[prop] {
			if sp == cprobe.Property {
				wprop = sp
			}
		}
	}
	r, hung, err := replayOnce(wprop, bin, path, 30)
	if err != nil {
		die2("%v", err)
	}
	if hung {
		r = &harness.Result{Violation: "hang", Signature: "hang", Detail: "case did not finish within the watchdog"}
	}
	if dumpLog {
		for _, l := range r.Log {
			fmt.Println("  " + l)
		}
	}
	fmt.Printf("replay %s: outcome=%s steps=%d log_hash=%s\n", path, r.Outcome, r.Steps, r.LogHash)
	code := 0
	if r.Violation != "" {
		if kf := matchKnown(known, prop, r); kf != "" {
			fmt.Printf("KNOWN-FINDING: property=%s %s\n", prop, kf)
		} else {
			fmt.Printf("VIOLATION property=%s replay=%s\n  class: %s\n  %s\n", prop, path, r.Violation, indent(r.Detail))
			code = 1
		}
	} else {
		fmt.Println("no violation on this tree")
	}
	cleanup()
	return code
}

// raceLeg builds ./racer with -race and WITHOUT the overlay (real mutexes, real
// goroutines) and runs the property's workloads for a few seconds. It reports
// only what the Go race detector prints. Probabilistic; auxiliary.
func raceLeg(prop, tier string, seed int64, secs int, info map[string]any, fixedCase ...string) *violation {
	bin := filepath.Join(scratch, "racer.test")
	args := []string{"test", "-race", "-c", "-overlay", filepath.Join(scratch, "overlay.plain.json"), "-o", bin, "./racer"}
	if plainRealLeg[prop] {
		args = append(args[:1], args[2:]...)
	}
	args = goArgs(args[0], args[1:]...)
	if out, err := runCmd(verifDir, goEnv(), goBin, args...); err != nil {
		die2("building the race leg failed: %v\n%s", err, out)
	}
	t0 := time.Now()
	cmd := exec.Command(bin, "-test.run", "^TestRace"+prop+"$", "-test.timeout", "0")
	cmd.Dir = scratch
	cmd.Env = append(goEnv(), "GORACE=halt_on_error=1 exitcode=66", fmt.Sprintf("VERIF_SEED=%d", seed), fmt.Sprintf("VERIF_RACE_SECONDS=%d", secs),
		"VERIF_RACE_OUT="+filepath.Join(scratch, "race.json"))
	if len(fixedCase) > 0 && fixedCase[0] != "" {
		cmd.Env = append(cmd.Env, "VERIF_REAL_CASE="+fixedCase[0])
	}
	// the real-goroutine leg has no scheduler to detect a deadlock: give it its budget plus a
	// minute, then kill the process group; not finishing is itself a finding (the workloads terminate)
	cmd.SysProcAttr = &syscall.SysProcAttr{Setpgid: true}
	var buf strings.Builder
	cmd.Stdout, cmd.Stderr = &buf, &buf
	timedOut := false
	if err0 := cmd.Start(); err0 != nil {
		die2("cannot start the race leg: %v", err0)
	}
	timer := time.AfterFunc(time.Duration(secs+120)*time.Second, func() {
		timedOut = true
		syscall.Kill(-cmd.Process.Pid, syscall.SIGKILL)
	})
	err := cmd.Wait()
	timer.Stop()
	out := []byte(buf.String())
	info["race_leg_wall_s"] = time.Since(t0).Seconds()
	if timedOut {
		return &violation{seed: seed, res: &harness.Result{Violation: "real-leg-stuck", Signature: "real-leg-stuck",
			Detail: fmt.Sprintf("the real-goroutine leg did not finish within %d s (budget %d s): its workloads always terminate, so goroutines are deadlocked or spinning; this does not replay exactly", secs+120, secs)}}
	}
	if b, e := os.ReadFile(filepath.Join(scratch, "race.json")); e == nil {
		var m map[string]any
		if json.Unmarshal(b, &m) == nil {
			for k, v := range m {
				info["race_leg_"+k] = v
			}
		}
	}
	if err != nil {
		s := string(out)
		if strings.Contains(s, "WARNING: DATA RACE") && !strings.Contains(s, "github.com/mattn/anko/") {
			die2("the race detector reported a race that does not involve mattn/anko (a race inside the harness): not a verdict\n%s", s)
		}
		if strings.Contains(s, "WARNING: DATA RACE") {
			if len(s) > 5000 {
				s = s[:5000]
			}
			sig := "race"
			if m := regexp.MustCompile(`(?m)^\s+github.com/mattn/anko/[^\s]+\(\)\n\s+(\S+)`).FindStringSubmatch(s); m != nil {
				sig = "race:" + filepath.Base(m[1])
			}
			return &violation{seed: seed, res: &harness.Result{Violation: "data-race", Signature: sig, Detail: "Go race detector (real goroutines, unmodified source):\n" + s}}
		}
		if i := strings.Index(s, "REAL-LEG VIOLATION"); i >= 0 {
			d := s[i:]
			if len(d) > 6000 {
				d = d[:6000]
			}
			class := "real-leg"
			if m := regexp.MustCompile(`class=(\S+)`).FindStringSubmatch(d); m != nil {
				class = m[1]
			}
			v := &violation{seed: seed, res: &harness.Result{Violation: class, Signature: "real-leg:" + class,
				Detail: "real goroutines (no scheduler, unmodified source), same oracle as the simulation; this does not replay exactly:\n" + d}}
			if b, e := os.ReadFile(filepath.Join(scratch, "race.json.case")); e == nil {
				var wrap struct {
					Case *harness.Case `json:"case"`
				}
				if json.Unmarshal(b, &wrap) == nil {
					v.c = wrap.Case
				}
			}
			return v
		}
		if strings.Contains(s, "panic:") || strings.Contains(s, "fatal error:") {
			if len(s) > 5000 {
				s = s[:5000]
			}
			return &violation{seed: seed, res: &harness.Result{Violation: "process-crash", Signature: "real-leg process-crash:" + crashSig(s),
				Detail: "the real-goroutine leg's process died (a panic escaped every recover, or a fatal runtime error):\n" + s}}
		}
		die2("race leg failed without a race report: %v\n%s", err, s)
	}
	return nil
}

func writeEvidence(prop, tier string, seed int64, sr *sweepResult, cfg tierCfg, workers int, gen map[string]any, race map[string]any, reported, knownN int, wall time.Duration) {
	perHour := 0.0
	if sr.wall > 0 {
		perHour = float64(sr.evals) / sr.wall * 3600
	}
	cov := map[string]any{
		"evaluations":                   sr.evals,
		"distinct_nontrivial":           sr.nShapes,
		"rule":                          "one evaluation = one simulated run of a case generated from seed VERIF_SEED*2^20+i; a case is non-trivial when its run contained at least one context switch or one injected fault/event that fired (per-property rule in DESIGN.md section 5); distinct = distinct hash of (workload, scheduling log, fired events)",
		"samples":                       sr.samples,
		"simulated_runs_per_hour":       perHour,
		"seeds_per_hour":                perHour,
		"scheduler_steps":               sr.steps,
		"context_switches":              sr.switches,
		"lock_contention_events":        sr.contended,
		"tasks_run":                     sr.tasks,
		"simulated_time_s":              float64(sr.fakeNs) / 1e9,
		"distinct_interleavings":        sr.nTraces,
		"distinct_measure":              "distinct FNV hashes of the per-run scheduling log (step, task id, yield kind)",
		"fault_and_probe_counts":        sr.counters,
		"outcomes":                      sr.outcomes,
		"inconclusive_runs":             sr.inconcl,
		"inconclusive_examples":         sr.inconclEx,
		"runs_with_leaked_goroutine":    sr.leaked,
		"violations_before_grouping":    sr.nviolRaw,
		"known_finding_candidates":      sr.nknownCand,
		"worker_stalls_not_reconfirmed": sr.unconfirmedHangs,
		"known_findings_matched":        knownN,
		"workers":                       workers,
		"sweep_wall_s":                  sr.wall,
		"rewriter_report":               gen,
		"components_real":               []string{"parser", "ast", "vm (all logic)", "env (all logic)", "core", "packages", "Go channels", "reflect"},
		"components_stubbed":            []string{"context.Context (simrt.Ctx)", "env mutex type (simrt.RWMutex)", "goroutine spawn (simrt.Go)", "clock (testing/synctest fake clock)", "host functions bound by the workload", "env.ExternalLookup"},
	}
	var atZero []string
	for _, k := range expectedProbes[prop] {
		if sr.counters[k] == 0 {
			atZero = append(atZero, k)
		}
	}
	cov["probes_expected"] = expectedProbes[prop]
	cov["probes_at_zero"] = atZero
	if len(atZero) > 0 {
		fmt.Fprintf(os.Stderr, "check: warning: reach probes at zero in this sweep: %v\n", atZero)
	}
	for k, v := range race {
		cov[k] = v
	}
	ev := map[string]any{
		"property_id": prop,
		"tier":        tier,
		"seed":        seed,
		"level":       "exploration",
		"coverage":    cov,
		"assumptions": []string{
			"seeded sampling of schedules and fault sequences, not enumeration: a clean batch is evidence, not proof",
			"between two yield points a task touches only task-local state or Go channels (see DESIGN.md section 2)",
			"the rewriter recognises sync.RWMutex/sync.Mutex and go statements in env and vm; other primitives are listed under rewriter_report.unrewritten_sync_sites and run unscheduled",
		},
		"wall_s":     wall.Seconds(),
		"violations": reported,
	}
	b, _ := json.MarshalIndent(ev, "", " ")
	evDir := filepath.Join(verifDir, "evidence")
	if v := os.Getenv("VERIF_EVIDENCE_DIR"); v != "" {
		evDir = v
	}
	os.MkdirAll(evDir, 0o755)
	os.WriteFile(filepath.Join(evDir, prop+".json"), b, 0o644)
}

// selftest proves determinism on a sample: for every property, the same 64
// seeds are run in 30 separate OS processes spread over GOMAXPROCS 1/4/16, and
// the per-seed result records (violation, outcome, steps, switches, event-log
// hash, counters) are compared. Any difference is a determinism bug of the
// harness: exit 2.
func selftest(props []string) int {
	if len(props) == 0 {
		for k := range tiers {
			props = append(props, k)
		}
		sort.Strings(props)
	}
	var err error
	scratch, err = os.MkdirTemp("", "verifsim-selftest-")
	if err != nil {
		die2("mktemp: %v", err)
	}
	defer cleanup()
	if out, err := runCmd(verifDir, goEnv(), goBin, "run", "./verifgen", "-repo", repoDir, "-target", repoDir, "-out", scratch); err != nil {
		die2("verifgen failed: %v\n%s", err, out)
	}
	bin := filepath.Join(scratch, "worker.test")
	if out, err := runCmd(verifDir, goEnv(), goBin, goArgs("test", "-c", "-overlay", filepath.Join(scratch, "overlay.json"), "-o", bin, "./worker")...); err != nil {
		die2("building the worker failed: %v\n%s", err, out)
	}
	// non-deterministic iteration in the harness itself would show up here first
	bad := 0
	const nProc = 30
	nSeeds := int64(64)
	if v := os.Getenv("VERIF_SELFTEST_SEEDS"); v != "" {
		if n, e := strconv.ParseInt(v, 10, 64); e == nil {
			nSeeds = n
		}
	}
	for _, prop := range props {
		base := int64(7) << 20
		fps := make([]map[int64]string, nProc)
		var procs []*proc
		for i := 0; i < nProc; i++ {
			workerProcs = []string{"1", "4", "16"}[i%3]
			extra := []string{fmt.Sprintf("VERIF_SEED_BASE=%d", base), fmt.Sprintf("VERIF_COUNT=%d", nSeeds), "VERIF_OFFSET=0", "VERIF_STRIDE=1", "VERIF_MODE=sweep", "VERIF_MAX_VIOL=1000000", "VERIF_EMIT_CASES=1"}
			procs = append(procs, startWorker(prop, "quick", bin, extra, filepath.Join(scratch, fmt.Sprintf("st.%s.%d.jsonl", prop, i)), filepath.Join(scratch, fmt.Sprintf("st.%s.%d.hb", prop, i))))
			if len(procs)%16 == 0 {
				for _, p := range procs[len(procs)-16:] {
					p.wait(60)
				}
			}
		}
		for _, p := range procs {
			p.wait(60)
		}
		for i := 0; i < nProc; i++ {
			fps[i] = map[int64]string{}
			readLines(filepath.Join(scratch, fmt.Sprintf("st.%s.%d.jsonl", prop, i)), func(l *line) {
				if l.Res == nil {
					return
				}
				r := *l.Res
				r.Detail = ""
				b, _ := json.Marshal(r)
				fps[i][l.Seed] = string(b)
			})
		}
		diffs := 0
		for i := 1; i < nProc; i++ {
			if len(fps[i]) != len(fps[0]) {
				diffs++
				fmt.Printf("selftest %s: process %d produced %d records, process 0 produced %d\n", prop, i, len(fps[i]), len(fps[0]))
				continue
			}
			for sd, fp := range fps[0] {
				if fps[i][sd] != fp {
					diffs++
					if diffs < 4 {
						fmt.Printf("selftest %s: seed %d differs between process 0 and %d (GOMAXPROCS %s):\n  %s\n  %s\n", prop, sd, i, []string{"1", "4", "16"}[i%3], fp, fps[i][sd])
					}
				}
			}
		}
		fmt.Printf("selftest %s: %d seeds x %d processes (GOMAXPROCS 1/4/16): %d differing records\n", prop, len(fps[0]), nProc, diffs)
		if diffs > 0 || int64(len(fps[0])) != nSeeds {
			bad++
		}
	}
	workerProcs = "1"
	if bad > 0 {
		fmt.Println("selftest: DETERMINISM FAILURE")
		cleanup()
		return 2
	}
	fmt.Println("selftest: deterministic")
	cleanup()
	return 0
}

// hangTrouble is set by confirmHang when a stall is the harness's limit rather than a verdict.
var hangTrouble string

// blockedOutsideTheSimulation looks at the SIGQUIT stack dump of a stalled worker for goroutines of the bubble
// that are blocked but NOT durably (the runtime marks durable blocks "(durable)": everything the simulator owns
// blocks durably). It returns "script" and the stack when such a goroutine is in the middle of evaluating a
// script, "helper" when only goroutines without interpreter evaluation frames are, "" when there is none.
func blockedOutsideTheSimulation(stderrPath string) (string, string) {
	b, err := os.ReadFile(stderrPath)
	if err != nil {
		return "", ""
	}
	helper := ""
	for _, blk := range strings.Split(string(b), "\n\n") {
		first := firstLine(blk)
		if !strings.HasPrefix(first, "goroutine ") || !strings.Contains(first, "synctest bubble") || strings.Contains(first, "(durable)") {
			continue
		}
		if strings.Contains(first, "[running") || strings.Contains(first, "[runnable") || strings.Contains(first, "[syscall") {
			continue
		}
		if !strings.Contains(blk, "github.com/mattn/anko/") {
			continue
		}
		if len(blk) > 2500 {
			blk = blk[:2500]
		}
		if strings.Contains(blk, "github.com/mattn/anko/vm.(*runInfoStruct).") {
			return "script", blk
		}
		if helper == "" {
			helper = blk
		}
	}
	if helper != "" {
		return "helper", helper
	}
	return "", ""
}

// spinningInInterpreter looks at the SIGQUIT stack dump of a stalled worker: it
// returns the stack of a goroutine that is in state "running"/"runnable" with
// frames inside github.com/mattn/anko/vm, or "".
func spinningInInterpreter(stderrPath string) string {
	b, err := os.ReadFile(stderrPath)
	if err != nil {
		return ""
	}
	for _, blk := range strings.Split(string(b), "\n\n") {
		first := firstLine(blk)
		if !strings.HasPrefix(first, "goroutine ") {
			continue
		}
		if !(strings.Contains(first, "[running") || strings.Contains(first, "[runnable")) {
			continue
		}
		if strings.Contains(blk, "github.com/mattn/anko/vm.") {
			if len(blk) > 2500 {
				blk = blk[:2500]
			}
			return blk
		}
	}
	return ""
}
