// Package racer is the auxiliary race-detector leg: the same generated
// workloads as the simulation, but on real goroutines with the unmodified
// source (no overlay), built with -race. It reports only what the Go race
// detector prints (GORACE=halt_on_error exits the process with code 66).
// Failures here do not replay exactly; the lockset oracle of the simulation is
// the deterministic counterpart.
package racer

import (
	"context"
	"encoding/json"
	"fmt"
	"os"
	"runtime"
	"strconv"
	"testing"
	"time"

	"github.com/mattn/anko/env"
	"github.com/mattn/anko/vm"

	"verifsim/harness"
	_ "verifsim/props/c13"
	c13 "verifsim/props/c13"
	c14 "verifsim/props/c14"
	c16 "verifsim/props/c16"
)

func budget() (int64, time.Duration) {
	seed, _ := strconv.ParseInt(os.Getenv("VERIF_SEED"), 10, 64)
	secs, _ := strconv.Atoi(os.Getenv("VERIF_RACE_SECONDS"))
	if secs <= 0 {
		secs = 5
	}
	return seed, time.Duration(secs) * time.Second
}

func report(m map[string]any) {
	if p := os.Getenv("VERIF_RACE_OUT"); p != "" {
		b, _ := json.Marshal(m)
		os.WriteFile(p, b, 0o644)
	}
}

func TestRaceC13(t *testing.T) {
	seed, d := budget()
	p := harness.Lookup("C13")
	end := time.Now().Add(d)
	n := 0
	for i := int64(0); time.Now().Before(end); i++ {
		c := p.Gen((seed<<20)+i, "race")
		for rep := 0; rep < 4; rep++ {
			if msg := c13.RunReal(c); msg != "" {
				if out := os.Getenv("VERIF_RACE_OUT"); out != "" {
					b, _ := json.Marshal(map[string]any{"case": c, "class": "op-panic"})
					os.WriteFile(out+".case", b, 0o644)
				}
				fmt.Printf("REAL-LEG VIOLATION class=op-panic\nan environment operation panicked on real goroutines: %s\n", msg)
				t.FailNow()
			}
		}
		n++
	}
	report(map[string]any{"workloads": n, "repeats_each": 4, "seconds": d.Seconds()})
}

func TestRaceC14(t *testing.T) {
	seed, d := budget()
	p := harness.Lookup("C14")
	end := time.Now().Add(d)
	n := 0
	for i := int64(0); time.Now().Before(end); i++ {
		c := p.Gen((seed<<20)+i, "race")
		for rep := 0; rep < 2; rep++ {
			if msg := c14.RunReal(c); msg != "" {
				if out := os.Getenv("VERIF_RACE_OUT"); out != "" {
					b, _ := json.Marshal(map[string]any{"case": c, "class": "panic"})
					os.WriteFile(out+".case", b, 0o644)
				}
				fmt.Printf("REAL-LEG VIOLATION class=panic\nan execution panicked on real goroutines: %s\n", msg)
				t.FailNow()
			}
		}
		n++
	}
	if g := c14.ProcessGlobals() + c14.ScanSmallInts(); g != "" {
		fmt.Printf("REAL-LEG VIOLATION class=process-globals\nprocess-wide values modified: %s\n", g)
		t.FailNow()
	}
	report(map[string]any{"workloads": n, "repeats_each": 2, "seconds": d.Seconds()})
}

// TestRaceC16 is the real-thread leg of C16: the generated pipelines (including
// fan-out worker pools) on real goroutines, GOMAXPROCS cycling through
// 1/2/4/8/16, judged by the same delivery oracle as the simulation. A failure
// does not replay exactly; the replay file re-runs the failing case repeatedly.
func TestRaceC16(t *testing.T) {
	seed, d := budget()
	p := harness.Lookup("C16")
	end := time.Now().Add(d)
	procs := []int{1, 2, 4, 8, 16}
	defer runtime.GOMAXPROCS(runtime.GOMAXPROCS(0))
	var fixed *harness.Case
	if path := os.Getenv("VERIF_REAL_CASE"); path != "" {
		b, err := os.ReadFile(path)
		if err != nil {
			t.Fatal(err)
		}
		var wrap struct {
			Case *harness.Case `json:"case"`
		}
		if json.Unmarshal(b, &wrap) != nil || wrap.Case == nil {
			t.Fatal("bad real-leg case file")
		}
		fixed = wrap.Case
	}
	n := 0
	for i := int64(0); time.Now().Before(end); i++ {
		c := fixed
		if c == nil {
			c = p.Gen((seed<<20)+i, "real")
		}
		runtime.GOMAXPROCS(procs[int(i)%len(procs)])
		for rep := 0; rep < 3; rep++ {
			if class, detail := c16.RunReal(c); class != "" {
				if out := os.Getenv("VERIF_RACE_OUT"); out != "" {
					b, _ := json.Marshal(map[string]any{"case": c, "class": class})
					os.WriteFile(out+".case", b, 0o644)
				}
				fmt.Printf("REAL-LEG VIOLATION class=%s gomaxprocs=%d\n%s\n", class, procs[int(i)%len(procs)], detail)
				t.FailNow()
			}
		}
		n++
	}
	report(map[string]any{"workloads": n, "repeats_each": 3, "seconds": d.Seconds(), "gomaxprocs_cycle": procs})
}

// TestRaceC02 is the real-goroutine leg of C02 for the one shape the simulation cannot reach: several
// ExecuteContext calls racing on ONE host channel (a check-then-act between them has no yield point
// inside). Every call is cancelled and must return; the bound is wall-clock and deliberately huge
// (30 s for scripts that poll on every statement), and it is the property's own observable
// ("wall-clock time between cancel() and return").
func TestRaceC02(t *testing.T) {
	seed, d := budget()
	end := time.Now().Add(d)
	defer runtime.GOMAXPROCS(runtime.GOMAXPROCS(0))
	sendForms := []string{"for { hc <- 1 }", "for i = 0; true; i++ { hc <- i }", "func s() { for { hc <- 1 } }\ns()", "for { func(x) { hc <- x }(1) }"}
	recvForms := []string{"for { <-hc }", "for { v = <-hc }", "for { v, ok = <-hc }", "for v in hc { }", "func r(a, b, c, d, e) { for { <-hc } }\nr(1, 2, 3, 4, 5)"}
	rounds := 0
	r := uint64(seed)*2654435761 + 12345
	next := func(n int) int { r = r*6364136223846793005 + 1442695040888963407; return int((r >> 33) % uint64(n)) }
	for time.Now().Before(end) {
		runtime.GOMAXPROCS([]int{2, 4, 8, 16}[next(4)])
		capacity := next(4)
		hc := make(chan int64, capacity)
		nS, nR := 2+next(6), 1+next(4)
		ctx, cancel := context.WithCancel(context.Background())
		type res struct {
			src string
			err error
		}
		done := make(chan res, nS+nR)
		start := func(src string) {
			e := env.NewEnv()
			e.Define("hc", hc)
			go func() {
				_, err := vm.ExecuteContext(ctx, e, &vm.Options{Debug: false}, src)
				done <- res{src, err}
			}()
		}
		for i := 0; i < nS; i++ {
			start(sendForms[next(len(sendForms))])
		}
		for i := 0; i < nR; i++ {
			start(recvForms[next(len(recvForms))])
		}
		time.Sleep(time.Duration(next(2000)) * time.Microsecond)
		cancel()
		deadline := time.After(30 * time.Second)
		for got := 0; got < nS+nR; got++ {
			select {
			case x := <-done:
				if x.err == nil || x.err.Error() != "execution interrupted" {
					fmt.Printf("REAL-LEG VIOLATION class=interrupt-swallowed\na cancelled call returned error %v instead of \"execution interrupted\"\n%s\n", x.err, x.src)
					t.FailNow()
				}
			case <-deadline:
				fmt.Printf("REAL-LEG VIOLATION class=cancel-ignored\n%d of %d cancelled ExecuteContext calls sharing one host channel (cap %d, %d senders, %d receivers) had not returned 30 s after cancel()\n", nS+nR-got, nS+nR, capacity, nS, nR)
				t.FailNow()
			}
		}
		rounds++
	}
	report(map[string]any{"rounds": rounds, "seconds": d.Seconds()})
}
