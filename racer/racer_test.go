// Package racer is the auxiliary race-detector leg: the same generated
// workloads as the simulation, but on real goroutines with the unmodified
// source (no overlay), built with -race. It reports only what the Go race
// detector prints (GORACE=halt_on_error exits the process with code 66).
// Failures here do not replay exactly; the lockset oracle of the simulation is
// the deterministic counterpart.
package racer

import (
	"context"
	"encoding/json"
	"fmt"
	"os"
	"reflect"
	"os/exec"
	"runtime"
	"strconv"
	"strings"
	"sync"
	"sync/atomic"
	"syscall"
	"testing"
	"time"

	"github.com/mattn/anko/core"
	"github.com/mattn/anko/env"
	_ "github.com/mattn/anko/packages"
	"github.com/mattn/anko/vm"

	"verifsim/harness"
	_ "verifsim/props/c09"
	_ "verifsim/props/c13"
	c13 "verifsim/props/c13"
	c14 "verifsim/props/c14"
	c16 "verifsim/props/c16"
)

func budget() (int64, time.Duration) {
	seed, _ := strconv.ParseInt(os.Getenv("VERIF_SEED"), 10, 64)
	secs, _ := strconv.Atoi(os.Getenv("VERIF_RACE_SECONDS"))
	if secs <= 0 {
		secs = 5
	}
	return seed, time.Duration(secs) * time.Second
}

func report(m map[string]any) {
	if p := os.Getenv("VERIF_RACE_OUT"); p != "" {
		b, _ := json.Marshal(m)
		os.WriteFile(p, b, 0o644)
	}
}

func TestRaceC13(t *testing.T) {
	seed, d := budget()
	p := harness.Lookup("C13")
	end := time.Now().Add(d)
	n := 0
	for i := int64(0); time.Now().Before(end); i++ {
		c := p.Gen((seed<<20)+i, "race")
		for rep := 0; rep < 4; rep++ {
			if msg := c13.RunReal(c); msg != "" {
				if out := os.Getenv("VERIF_RACE_OUT"); out != "" {
					b, _ := json.Marshal(map[string]any{"case": c, "class": "history"})
					os.WriteFile(out+".case", b, 0o644)
				}
				class := "history"
				if i := strings.Index(msg, ": "); i > 0 && !strings.ContainsAny(msg[:i], " \n") {
					class = msg[:i]
				}
				fmt.Printf("REAL-LEG VIOLATION class=%s\nthe same history oracle as the simulation (stamps from one atomic counter), on real goroutines: %s\n", class, msg)
				t.FailNow()
			}
		}
		n++
	}
	report(map[string]any{"workloads": n, "repeats_each": 4, "seconds": d.Seconds()})
}

func TestRaceC14(t *testing.T) {
	seed, d := budget()
	p := harness.Lookup("C14")
	end := time.Now().Add(d)
	n := 0
	storms := 0
	for i := int64(0); time.Now().Before(end); i++ {
		c := p.Gen((seed<<20)+i, "race")
		for rep := 0; rep < 2; rep++ {
			if msg := c14.RunReal(c); msg != "" {
				if out := os.Getenv("VERIF_RACE_OUT"); out != "" {
					b, _ := json.Marshal(map[string]any{"case": c, "class": "panic"})
					os.WriteFile(out+".case", b, 0o644)
				}
				fmt.Printf("REAL-LEG VIOLATION class=panic\nan execution panicked on real goroutines: %s\n", msg)
				t.FailNow()
			}
		}
		if i%4 == 0 {
			if msg := c14.SharedLibraryReal(int(i)); msg != "" {
				fmt.Printf("REAL-LEG VIOLATION class=concurrent-differs\n%s\n", msg)
				t.FailNow()
			}
		}
		// a stretch of 20 ms with a host function type the process has never seen; about a third of the leg's time
		for k := 0; k < 2; k++ {
			storms++
			if msg := c14.FuncTypeStormReal(int(seed%1000)*53 + storms); msg != "" {
				fmt.Printf("REAL-LEG VIOLATION class=concurrent-differs\n%s\n", msg)
				t.FailNow()
			}
		}
		n++
	}
	if g := c14.ProcessGlobals() + c14.ScanSmallInts(); g != "" {
		fmt.Printf("REAL-LEG VIOLATION class=process-globals\nprocess-wide values modified: %s\n", g)
		t.FailNow()
	}
	report(map[string]any{"workloads": n, "repeats_each": 2, "seconds": d.Seconds(), "function_type_storms": storms})
}

// TestRaceC16 is the real-thread leg of C16: the generated pipelines (including
// fan-out worker pools) on real goroutines, GOMAXPROCS cycling through
// 1/2/4/8/16, judged by the same delivery oracle as the simulation. A failure
// does not replay exactly; the replay file re-runs the failing case repeatedly.
func TestRaceC16(t *testing.T) {
	seed, d := budget()
	p := harness.Lookup("C16")
	end := time.Now().Add(d)
	procs := []int{1, 2, 4, 8, 16}
	defer runtime.GOMAXPROCS(runtime.GOMAXPROCS(0))
	var fixed *harness.Case
	if path := os.Getenv("VERIF_REAL_CASE"); path != "" {
		b, err := os.ReadFile(path)
		if err != nil {
			t.Fatal(err)
		}
		var wrap struct {
			Case *harness.Case `json:"case"`
		}
		if json.Unmarshal(b, &wrap) != nil || wrap.Case == nil {
			t.Fatal("bad real-leg case file")
		}
		fixed = wrap.Case
	}
	n := 0
	for i := int64(0); time.Now().Before(end); i++ {
		c := fixed
		if c == nil {
			c = p.Gen((seed<<20)+i, "real")
		}
		runtime.GOMAXPROCS(procs[int(i)%len(procs)])
		for rep := 0; rep < 3; rep++ {
			if class, detail := c16.RunReal(c); class != "" {
				if out := os.Getenv("VERIF_RACE_OUT"); out != "" {
					b, _ := json.Marshal(map[string]any{"case": c, "class": class})
					os.WriteFile(out+".case", b, 0o644)
				}
				fmt.Printf("REAL-LEG VIOLATION class=%s gomaxprocs=%d\n%s\n", class, procs[int(i)%len(procs)], detail)
				t.FailNow()
			}
		}
		if fixed == nil && i%5 == 0 {
			if msg := chanChurn(int(i)); msg != "" {
				fmt.Printf("REAL-LEG VIOLATION class=lost-item gomaxprocs=%d\n%s\n", procs[int(i)%len(procs)], msg)
				t.FailNow()
			}
		}
		n++
	}
	report(map[string]any{"workloads": n, "repeats_each": 3, "seconds": d.Seconds(), "gomaxprocs_cycle": procs})
}

// TestRaceC02 is the real-goroutine leg of C02 for the one shape the simulation cannot reach: several
// ExecuteContext calls racing on ONE host channel (a check-then-act between them has no yield point
// inside). Every call is cancelled and must return; the bound is wall-clock and deliberately huge
// (30 s for scripts that poll on every statement), and it is the property's own observable
// ("wall-clock time between cancel() and return").
// chanChurn: a run that makes, uses, closes and drops a channel per item (reply channels), tens of thousands of
// them, while the garbage collector runs: every one behaves like a fresh channel, whatever address it got.
func chanChurn(round int) string {
	n := int64(12000 + 1000*(round%6))
	var sum int64
	e := env.NewEnv()
	e.Define("n", n)
	e.Define("acc", func(v int64) { sum += v })
	stop := make(chan struct{})
	go func() {
		for {
			select {
			case <-stop:
				return
			default:
				runtime.GC()
			}
		}
	}()
	defer close(stop)
	src := "for i = 0; i < n; i++ {\nr = make(chan int64, 1)\nr <- i\nacc(<-r)\nclose(r)\n}\ndone = make(chan int64)\ngo func() {\nfor j = 0; j < 50; j++ {\nq = make(chan int64, 1)\nq <- j\nacc(<-q)\nclose(q)\n}\ndone <- 1\n}()\n<-done"
	ctx, cancel := context.WithTimeout(context.Background(), 120*time.Second)
	defer cancel()
	_, err := vm.ExecuteContext(ctx, e, &vm.Options{Debug: false}, src)
	want := n*(n-1)/2 + 50*49/2
	if err != nil || sum != want {
		return fmt.Sprintf("a run that makes, uses, closes and drops one channel per item (%d of them, garbage collector running) ended with error %v after delivering a sum of %d (every item once: %d)\n%s", n, err, sum, want, src)
	}
	return ""
}

// twinRuns: two calls on ONE environment run the same program under different contexts; only the second is
// cancelled. It must return, whatever the first - still running - is holding.
func twinRuns(t *testing.T, k int) bool {
	progs := []string{
		"module svc {\nfor { }\n}",
		"module svc {\nfunc g() { for { x = 1 } }\ntry { g() } catch { }\n}",
		"func spin() { for { } }\nspin()",
		"for { x = 1 }", // (a shared VARIABLE is fine; a shared container written by both runs would be the script's own race)
		"module a {\nmodule b {\nfor true { }\n}\n}",
		"c = make(chan int64)\n<-c",
		// the first call is blocked on a channel of the host; the second wants to close / use that channel
		// (closing a channel another call is blocked SENDING on is a race of the two scripts - the race detector
		// says so - and is not part of this leg)
		"hc <- 1|hc <- 2",
		"for v in hc { }|close(hc)\nfor { }",
	}
	src := progs[k%len(progs)]
	srcB := src
	if i := strings.Index(src, "|"); i >= 0 {
		src, srcB = src[:i], src[i+1:]
	}
	e := env.NewEnv()
	e.Define("hc", make(chan int64))
	ctxA, cancelA := context.WithCancel(context.Background())
	ctxB, cancelB := context.WithCancel(context.Background())
	defer cancelA()
	defer cancelB()
	doneA, doneB := make(chan error, 1), make(chan error, 1)
	go func() { _, err := vm.ExecuteContext(ctxA, e, nil, src); doneA <- err }()
	time.Sleep(2 * time.Millisecond)
	go func() { _, err := vm.ExecuteContext(ctxB, e, nil, srcB); doneB <- err }()
	time.Sleep(2 * time.Millisecond)
	cancelB()
	select {
	case err := <-doneB:
		if err == nil || err.Error() != "execution interrupted" {
			fmt.Printf("REAL-LEG VIOLATION class=interrupt-swallowed\nthe second of two calls on one environment was cancelled and returned error %v\n%s\n", err, src)
			t.FailNow()
		}
	case <-time.After(30 * time.Second):
		fmt.Printf("REAL-LEG VIOLATION class=cancel-ignored\nthe second of two calls on one environment (same program, own context) had not returned 30 s after its context was cancelled; the first call is still running\n%s\n", src)
		t.FailNow()
	}
	cancelA()
	select {
	case <-doneA:
	case <-time.After(30 * time.Second):
		fmt.Printf("REAL-LEG VIOLATION class=cancel-ignored\nthe first of two calls on one environment had not returned 30 s after its context was cancelled\n%s\n", src)
		t.FailNow()
	}
	return true
}

// crowded: an earlier call under a context nobody cancels has left n script goroutines behind, all alive (blocked
// on a channel of the host). A second call that executes go statements of every calling convention and then
// spins or blocks is cancelled: it must return, however many script goroutines the process already holds.
func crowded(t *testing.T, n int, k int, opts *vm.Options) bool {
	hold := make(chan int64)
	e0 := env.NewEnv()
	e0.Define("hold", hold)
	defer close(hold) // lets the left-over goroutines end
	// n earlier calls, each under a context of its own that stays alive, each leaving ONE goroutine behind: none of
	// them owns a goroutine that a cancellation could end, so whatever a go statement may wait for inside the
	// interpreter is not released by cancelling the call that executes it
	if _, err := vm.Execute(e0, nil, "func w() { <-hold }"); err != nil {
		fmt.Printf("REAL-LEG TROUBLE the set-up of the crowded scenario failed: %v\n", err)
		t.FailNow()
	}
	for i := 0; i < n; i++ {
		ctx0, cancel0 := context.WithCancel(context.Background())
		defer cancel0()
		done0 := make(chan error, 1)
		go func() { _, err := vm.ExecuteContext(ctx0, e0, opts, "go w()"); done0 <- err }()
		select {
		case err := <-done0:
			if err != nil {
				fmt.Printf("REAL-LEG TROUBLE the set-up of the crowded scenario failed: %v\n", err)
				t.FailNow()
			}
		case <-time.After(20 * time.Second):
			// a single go statement that takes this long is stuck: once cancelled the call is owed a return
			cancel0()
			select {
			case <-done0:
				return true // merely slow: no verdict from this scenario
			case <-time.After(30 * time.Second):
				fmt.Printf("REAL-LEG VIOLATION class=cancel-ignored\na call whose whole program is `go w()` (w blocks on a channel of the host) had been running for 20 s and had not returned 30 s after its context was cancelled; %d earlier calls of the same kind, each under a context still alive, have left one goroutine behind each\n", i)
				t.FailNow()
			}
		}
	}
	progs := []string{
		"func w() { <-hold }\nfor i = 0; i < 8; i++ { go w() }\nfor { }",
		"go func() { <-hold }()\nc = make(chan int64)\n<-c",
		"func w(a, b, c, d, e) { <-hold }\ngo w(1, 2, 3, 4, 5)\nfor { x = 1 }",
		"func w(a, r...) { <-hold }\nxs = [1, 2, 3]\ngo w(xs...)\ngo w(1)\nc = make(chan int64, 1)\nfor { c <- 1 }",
		"func mk() { return func(x) { <-hold } }\nf = mk()\nfor i = 0; i < 4; i++ { go f(i) }\nfor v in make(chan int64) { }",
	}
	src := progs[k%len(progs)]
	e := env.NewEnv()
	e.Define("hold", hold)
	ctx, cancel := context.WithCancel(context.Background())
	defer cancel()
	done := make(chan error, 1)
	go func() { _, err := vm.ExecuteContext(ctx, e, opts, src); done <- err }()
	time.Sleep(5 * time.Millisecond)
	cancel()
	select {
	case err := <-done:
		if err == nil || err.Error() != "execution interrupted" {
			fmt.Printf("REAL-LEG VIOLATION class=interrupt-swallowed\na cancelled call in a process that holds %d live script goroutines of an earlier call returned error %v\n%s\n", n, err, src)
			t.FailNow()
		}
	case <-time.After(30 * time.Second):
		fmt.Printf("REAL-LEG VIOLATION class=cancel-ignored\na call that starts goroutines and then spins or blocks had not returned 30 s after its context was cancelled; the process holds %d live script goroutines that an earlier call (never cancelled) left behind\n%s\n", n, src)
		t.FailNow()
	}
	return true
}

func TestRaceC02(t *testing.T) {
	seed, d := budget()
	end := time.Now().Add(d)
	defer runtime.GOMAXPROCS(runtime.GOMAXPROCS(0))
	sendForms := []string{"for { hc <- 1 }", "for i = 0; true; i++ { hc <- i }", "func s() { for { hc <- 1 } }\ns()", "for { func(x) { hc <- x }(1) }"}
	recvForms := []string{"for { <-hc }", "for { v = <-hc }", "for { v, ok = <-hc }", "for v in hc { }", "func r(a, b, c, d, e) { for { <-hc } }\nr(1, 2, 3, 4, 5)"}
	rounds := 0
	r := uint64(seed)*2654435761 + 12345
	next := func(n int) int { r = r*6364136223846793005 + 1442695040888963407; return int((r >> 33) % uint64(n)) }
	unwinds := 0
	t0 := time.Now()
	for k := 0; k < 3; k++ {
		if !deepUnwind(t, 25000+next(15000), k) {
			return
		}
		unwinds++
	}
	for k := 0; k < 11; k++ {
		twinRuns(t, k)
	}
	for k := 0; k < 5; k++ {
		crowded(t, 260+next(500), k, nil)
	}
	// once, in numbers beyond any round figure a limit might have (ten thousand and some), and with ONE Options value
	// for every call of the host, so that whatever an Options value counts counts all of them
	crowded(t, 10100+next(400), next(5), &vm.Options{})
	fmt.Printf("deep unwinds took %v\n", time.Since(t0))
	end = time.Now().Add(d) // the racing rounds keep their full budget
	for time.Now().Before(end) {
		runtime.GOMAXPROCS([]int{2, 4, 8, 16}[next(4)])
		capacity := next(4)
		hc := make(chan int64, capacity)
		nS, nR := 2+next(6), 1+next(4)
		ctx, cancel := context.WithCancel(context.Background())
		ownDeadline := false
		switch next(4) {
		case 0:
			// a context with a deadline far away, cancelled early
			ctx, cancel = context.WithTimeout(context.Background(), time.Hour)
		case 1:
			// a context that ends by its OWN deadline, a moment from now, while every time budget the host can set on
			// the interpreter is far away: the host's context ended, so the error is "execution interrupted"
			ctx, cancel = context.WithTimeout(context.Background(), time.Duration(200+next(2000))*time.Microsecond)
			ownDeadline = true
		}
		type res struct {
			src string
			err error
		}
		done := make(chan res, nS+nR)
		start := func(src string) {
			e := env.NewEnv()
			e.Define("hc", hc)
			go func() {
				opts := &vm.Options{Debug: false}
				if ownDeadline {
					farBudgets(opts)
				}
				_, err := vm.ExecuteContext(ctx, e, opts, src)
				done <- res{src, err}
			}()
		}
		for i := 0; i < nS; i++ {
			start(sendForms[next(len(sendForms))])
		}
		for i := 0; i < nR; i++ {
			start(recvForms[next(len(recvForms))])
		}
		if ownDeadline {
			<-ctx.Done()
		} else {
			time.Sleep(time.Duration(next(2000)) * time.Microsecond)
		}
		cancel()
		deadline := time.After(30 * time.Second)
		for got := 0; got < nS+nR; got++ {
			select {
			case x := <-done:
				if x.err == nil || x.err.Error() != "execution interrupted" {
					fmt.Printf("REAL-LEG VIOLATION class=interrupt-swallowed\na cancelled call returned error %v instead of \"execution interrupted\"\n%s\n", x.err, x.src)
					t.FailNow()
				}
			case <-deadline:
				fmt.Printf("REAL-LEG VIOLATION class=cancel-ignored\n%d of %d cancelled ExecuteContext calls sharing one host channel (cap %d, %d senders, %d receivers) had not returned 30 s after cancel()\n", nS+nR-got, nS+nR, capacity, nS, nR)
				t.FailNow()
			}
		}
		rounds++
	}
	report(map[string]any{"rounds": rounds, "seconds": d.Seconds(), "deep_unwinds": unwinds})
}

// farBudgets sets every time.Duration field an Options value has (none on the pinned tree) to one hour: whatever time
// budget the interpreter offers its host is configured, and far away.
func farBudgets(o *vm.Options) {
	v := reflect.ValueOf(o).Elem()
	for i := 0; i < v.NumField(); i++ {
		if f := v.Field(i); f.CanSet() && f.Type() == reflect.TypeOf(time.Duration(0)) {
			f.SetInt(int64(time.Hour))
		}
	}
}

func cpuTime() time.Duration {
	var ru syscall.Rusage
	syscall.Getrusage(syscall.RUSAGE_SELF, &ru)
	return time.Duration(ru.Utime.Nano() + ru.Stime.Nano())
}

// deepUnwind: the cancellation lands while the script is `depth` script-function calls deep. The time to
// return must be short whatever the depth. It is judged in CPU time of this process (nothing else runs in it
// meanwhile), which a loaded machine cannot inflate, and against a bound two orders of magnitude above what
// unwinding 40000 frames costs.
func deepUnwind(t *testing.T, depth int, form int) bool {
	bottoms := []string{"atbottom()\nv = <-block\nreturn v", "atbottom()\nfor { spin() }", "atbottom()\nblock <- 1\nreturn 0"}
	frames := []string{"return down(n - 1) + 1", "defer tick()\nreturn down(n - 1) + 1", "x = down(n - 1)\nreturn x"}
	src := "func down(n) {\nif n == 0 {\n" + bottoms[form%len(bottoms)] + "\n}\n" + frames[form%len(frames)] + "\n}\ndown(depth)\n"
	e := env.NewEnv()
	ready := make(chan struct{})
	// The cost of returning is measured on the interpreter's own OS thread (the goroutine is locked to it), from the
	// last moment the script was seen at the bottom of the recursion to the return of the call, and judged against
	// the cost of going DOWN the same number of calls, measured the same way a moment earlier: no absolute figure,
	// no other thread's work (the garbage collector's workers scale with the machine) enters the verdict.
	var sample atomic.Int64 // thread CPU time when the script was last seen at the bottom
	var descend time.Duration
	var start time.Duration
	e.Define("block", make(chan int64))
	e.Define("depth", int64(depth))
	e.Define("tick", func() {})
	e.Define("atbottom", func() {
		now := threadCPU()
		descend = now - start
		sample.Store(int64(now))
		close(ready)
	})
	e.Define("spin", func() { sample.Store(int64(threadCPU())) })
	ctx, cancel := context.WithCancel(context.Background())
	defer cancel()
	type outcome struct {
		err    error
		unwind time.Duration
	}
	done := make(chan outcome, 1)
	go func() {
		runtime.LockOSThread()
		defer runtime.UnlockOSThread()
		start = threadCPU()
		_, err := vm.ExecuteContext(ctx, e, &vm.Options{Debug: false}, src)
		done <- outcome{err, threadCPU() - time.Duration(sample.Load())}
	}()
	select {
	case <-ready:
	case <-done:
		// not this property's business (e.g. a recursion limit): nothing to measure
		return true
	case <-time.After(120 * time.Second):
		return true
	}
	time.Sleep(5 * time.Millisecond)
	cancel()
	// going down d calls and coming back up with an error are both linear in d on an honest interpreter (coming back
	// is the cheaper of the two); an unwinding that copies something per frame is quadratic and, this deep, costs
	// hundreds of times the descent
	bound := 6*descend + 500*time.Millisecond
	giveUp := time.After(120 * time.Second)
	select {
	case o := <-done:
		if o.err == nil || o.err.Error() != "execution interrupted" {
			fmt.Printf("REAL-LEG VIOLATION class=interrupt-swallowed\na call cancelled %d script calls deep returned error %v instead of \"execution interrupted\"\n%s\n", depth, o.err, src)
			t.FailNow()
		}
		if o.unwind > bound {
			fmt.Printf("REAL-LEG VIOLATION class=cancel-slow\na call cancelled %d script calls deep needed %v of its thread's CPU time to return; going down those calls had taken %v (bound: 6 times that plus 0.5 s = %v): returning after cancellation must not grow faster than the depth\n%s\n", depth, o.unwind, descend, bound, src)
			t.FailNow()
		}
		fmt.Printf("deep unwind: depth %d form %d: %v of thread CPU time from cancel to return, %v to go down\n", depth, form, o.unwind, descend)
		return true
	case <-giveUp:
		fmt.Printf("REAL-LEG VIOLATION class=cancel-slow\na call cancelled %d script calls deep has not returned 120 s after the cancel (going down had taken %v of CPU time)\n%s\n", depth, descend, src)
		t.FailNow()
	}
	return true
}

// threadCPU: user+system CPU time of the calling OS thread.
func threadCPU() time.Duration {
	var ru syscall.Rusage
	syscall.Getrusage(1 /* RUSAGE_THREAD */, &ru)
	return time.Duration(ru.Utime.Nano() + ru.Stime.Nano())
}

// TestRaceC01 is the real-thread leg of C01 (built WITHOUT the race detector): script goroutines that share no
// container each run a battery of constructs with identifiers, struct shapes, type names and patterns that no
// earlier round has used, so that whatever the interpreter does on first use of a shape happens on several
// threads at once. Nothing is judged but what C01 states: every call returns, no panic reaches the caller,
// and the process survives (a fatal runtime error such as "concurrent map writes" kills this process; the
// driver reports that as process-crash). Data races as such are C14's business, not this leg's.
func TestRaceC01(t *testing.T) {
	seed, d := budget()
	end := time.Now().Add(d)
	defer runtime.GOMAXPROCS(runtime.GOMAXPROCS(0))
	r := uint64(seed)*2654435761 + 99991
	next := func(n int) int { r = r*6364136223846793005 + 1442695040888963407; return int((r >> 33) % uint64(n)) }
	rounds, timeouts, scriptErrs := 0, 0, 0
	sharedOpts := &vm.Options{Debug: false} // hosts commonly keep one Options value for all their runs
	// first-use storms: a process-wide table keyed by a small space of shapes (number of parameters, ...)
	// is only ever filled once per process, so each storm runs in a fresh child process of this binary
	storms := 4 + int(d/time.Second)
	if storms > 400 {
		storms = 400
	}
	for i := 0; i < storms; i++ {
		cmd := exec.Command(os.Args[0], "-test.run", "^TestStormC01$", "-test.timeout", "120s")
		cmd.Env = append(os.Environ(), fmt.Sprintf("VERIF_STORM=%d", seed*1000+int64(i)))
		out, err := cmd.CombinedOutput()
		if err != nil {
			o := string(out)
			if len(o) > 4000 {
				o = o[:4000]
			}
			fmt.Printf("REAL-LEG VIOLATION class=process-crash\na fresh host process in which 8 script goroutines (sharing no container) evaluated never-seen shapes at the same time died: %v\n%s\n", err, o)
			t.FailNow()
		}
	}
	end = time.Now().Add(d)
	for round := 0; time.Now().Before(end); round++ {
		runtime.GOMAXPROCS([]int{2, 4, 8, 16}[next(4)])
		k := 2 + next(7)
		var b strings.Builder
		fmt.Fprintf(&b, "done = make(chan int64, %d)\nnerr = make(chan int64, %d)\n", k, 64*k)
		for g := 0; g < k; g++ {
			u := fmt.Sprintf("%d_%d_%d", seed, round, g)
			if next(3) == 0 {
				// sometimes the same shapes on several goroutines of the round
				u = fmt.Sprintf("%d_%d_s", seed, round)
			}
			b.WriteString("go func() {\ndefer func() { done <- 1 }()\n")
			nb := 3 + next(6)
			for j := 0; j < nb; j++ {
				b.WriteString("try {\n" + c01Battery(next(c01Batteries), u, fmt.Sprintf("%d_%d", g, j)) + "\n} catch e { nerr <- 1 }\n")
			}
			b.WriteString("}()\n")
		}
		if round%16 == 5 {
			// a module declared inside a function body; its functions use a variable of that body, from two goroutines
			b.WriteString("func mhost(n) {\nmcnt = 0\nmdn = make(chan int64, 3)\nmodule mi {\nfunc bump(k) {\nfor q = 0; q < k; q++ { mcnt = mcnt + 1 }\nmdn <- 1\n}\n}\ngo mi.bump(n)\ngo mi.bump(n)\nmi.bump(n)\n<-mdn\n<-mdn\n<-mdn\nreturn mcnt > 0\n}\nmhost(6000)\n")
		}
		if round%16 == 9 {
			// a module and a copy of it (assignment copies), first written to by two goroutines at the same time:
			// they are different scopes
			var vs strings.Builder
			for i := 0; i < 120; i++ {
				fmt.Fprintf(&vs, "v%d = %d\n", i, i)
			}
			b.WriteString("module bigm {\n" + vs.String() + "}\nfor mr = 0; mr < 150; mr++ {\nmcp = bigm\nmd = make(chan int64, 2)\ngo func() { bigm.v0 = mr; md <- 1 }()\ngo func() { mcp.v1 = mr; md <- 1 }()\n<-md\n<-md\n}\n")
		}
		if round%16 == 3 {
			// a VARIABLE (not a container) of the enclosing scope, assigned values of changing kinds by one goroutine
			// and read - and used - by another and by the main script: scopes are safe to share between goroutines
			b.WriteString("shared = 0\nstopw = false\nwdone = make(chan int64, 2)\ngo func() {\nfor !stopw {\nshared = [1, 2, 3, 4, 5, 6, 7, 8]\nshared = 123456789\nshared = \"a string that is long enough to matter\"\nshared = {\"k\": \"v\"}\nshared = 1.5\n}\nwdone <- 1\n}()\n")
			use := "sv = shared\nif kindOf(sv) == \"slice\" { for se in sv { sn += se } } else { ss = \"\" + sv; sn += len(ss) }\n"
			b.WriteString("go func() {\nsn = 0\nfor w = 0; w < 10000; w++ {\ntry {\n" + use + "} catch e { }\n}\nwdone <- 1\n}()\n")
			b.WriteString("sn = 0\nfor w = 0; w < 10000; w++ {\ntry {\n" + use + "} catch e { }\n}\nstopw = true\n<-wdone\n<-wdone\n")
		}
		if round%16 == 7 {
			// a module turned into text (string concatenation, toString) while another goroutine assigns its variables:
			// module variables are scope variables
			b.WriteString("module fm { x = 0; y = 1; z = 2 }\nfdone = make(chan int64, 1)\nfstop = false\ngo func() {\nfor fi = 0; !fstop; fi++ { fm.x = fi; fm.y = fi }\nfdone <- 1\n}()\nfn = 0\nfor fj = 0; fj < 40000; fj++ { fn += len(\"\" + fm) + len(toString(fm)) }\nfstop = true\n<-fdone\n")
		}
		if round%16 == 5 {
			// a variable whose address is taken and used by goroutines while the scope that holds it deletes and defines
			// it again
			b.WriteString("avar = 1\nadone = make(chan int64, 2)\nastop = false\n")
			b.WriteString("go func() {\nfor !astop { try { ap = &avar; aq = *ap } catch e { } }\nadone <- 1\n}()\n")
			b.WriteString("go func() {\nfor !astop { try { ar = avar + 1 } catch e { } }\nadone <- 1\n}()\n")
			// (unrolled: only a statement of the scope itself defines the variable there again)
			for aw := 0; aw < 600; aw++ {
				fmt.Fprintf(&b, "delete(\"avar\")\navar = %d\n", aw)
			}
			b.WriteString("astop = true\n<-adone\n<-adone\n")
		}
		fmt.Fprintf(&b, "for i = 0; i < %d; i++ { <-done }\nlen(nerr)\n", k)
		src := b.String()
		e := env.NewEnv()
		core.Import(e)
		ctx, cancel := context.WithTimeout(context.Background(), 60*time.Second)
		var val interface{}
		var err error
		func() {
			defer func() {
				if x := recover(); x != nil {
					fmt.Printf("REAL-LEG VIOLATION class=panic-reached-host\na Go panic left ExecuteContext (Debug=false): %v\n%s\n", x, src)
					t.FailNow()
				}
			}()
			opts := sharedOpts
			if round%3 == 0 {
				opts = &vm.Options{Debug: false}
			}
			val, err = vm.ExecuteContext(ctx, e, opts, src)
		}()
		if ctx.Err() != nil {
			timeouts++ // termination is not what C01 states
		} else if err != nil {
			scriptErrs++
		} else if n, _ := val.(int64); n > 0 {
			scriptErrs += int(n)
		}
		cancel()
		rounds++
	}
	report(map[string]any{"rounds": rounds, "seconds": d.Seconds(), "timeouts": timeouts, "script_errors_caught": scriptErrs, "first_use_storm_processes": storms})
}

// TestStormC01 is the body of one storm child (see TestRaceC01); run directly it does nothing.
func TestStormC01(t *testing.T) {
	sv := os.Getenv("VERIF_STORM")
	if sv == "" {
		return
	}
	seed, _ := strconv.ParseInt(sv, 10, 64)
	runtime.GOMAXPROCS(16)
	const k = 8
	var b strings.Builder
	fmt.Fprintf(&b, "done = make(chan int64, %d)\nstart = make(chan int64)\n", k)
	for g := 0; g < k; g++ {
		b.WriteString("go func() {\ndefer func() { done <- 1 }()\n<-start\n")
		for j := 0; j < 26; j++ {
			u := fmt.Sprintf("%d_%d_%d", seed, g, j)
			v := fmt.Sprintf("%d_%d", g, j)
			// parameter counts are spread so that every goroutine brings its own new shapes
			n := 5 + (g+j*k+int(seed%7))%115
			var ps, as []string
			for i := 0; i < n; i++ {
				ps = append(ps, "q"+strconv.Itoa(i))
				as = append(as, strconv.Itoa(i))
			}
			if j%2 == 1 {
				ps[n-1] += "..."
			}
			b.WriteString("try {\nf" + v + " = func(" + strings.Join(ps, ", ") + ") { return q0 }\nf" + v + "(" + strings.Join(as, ", ") + ")\n")
			b.WriteString(c01Battery(j, u, v) + "\n} catch e { }\n")
		}
		b.WriteString("}()\n")
	}
	fmt.Fprintf(&b, "close(start)\nfor i = 0; i < %d; i++ { <-done }\n", k)
	e := env.NewEnv()
	core.Import(e)
	ctx, cancel := context.WithTimeout(context.Background(), 60*time.Second)
	defer cancel()
	if _, err := vm.ExecuteContext(ctx, e, &vm.Options{Debug: false}, b.String()); err != nil && ctx.Err() == nil {
		// a script error is not a crash; nothing to report
		_ = err
	}
}

const c01Batteries = 14

var c01Shape atomic.Int64

// c01Battery returns statements using only names that end in the goroutine-unique suffix v (variables) and
// shapes that depend on u (fresh per round, sometimes shared by the goroutines of one round).
func c01Battery(k int, u, v string) string {
	switch k % c01Batteries {
	case 0:
		return "s" + v + " = make(struct { A" + u + " int64, M" + u + " map[string]int64 })\ns" + v + ".A" + u + " = 1\ns" + v + ".M" + u + "[\"k\"] = 2\nx" + v + " = s" + v + ".A" + u + " + s" + v + ".M" + u + "[\"k\"]"
	case 1:
		return "func() {\nmake(type T" + u + ", make(struct { B" + u + " string }))\nt" + v + " = make(T" + u + ")\nt" + v + ".B" + u + " = \"x\"\np" + v + " = new(T" + u + ")\np" + v + ".B" + u + " = \"y\"\nreturn p" + v + ".B" + u + "\n}()"
	case 2:
		return "l" + v + " = make([]map[string][]int64, 2)\nc" + v + " = make(chan struct { C" + u + " int64 }, 1)\nc" + v + " <- make(struct { C" + u + " int64 })\nw" + v + " = <-c" + v + "\nw" + v + ".C" + u
	case 3:
		return "func() {\nmodule M" + v + " {\nv = 1\nfunc get() { return v }\n}\nreturn M" + v + ".get()\n}()"
	case 4:
		return "st" + v + " = import(\"strings\")\nst" + v + ".ToUpper(\"a" + u + "\")\nre" + v + " = import(\"regexp\")\nre" + v + ".MustCompile(\"a" + u + "+\").MatchString(\"a" + u + "\")"
	case 5:
		return "func() {\nfunc f" + v + "(a, b, c...) { return a + b + len(c) }\nf" + v + "(1, 2, 3, 4)\nfunc(x) { return x }(5)\nfunc g" + v + "(a, b, c, d, e) { defer func() { }(); return a }\nreturn g" + v + "(1, 2, 3, 4, 5)\n}()"
	case 6:
		return "try { throw \"e" + u + "\" } catch e" + v + " { }\ntry { [1][5] } catch e" + v + " { }\ny" + v + " = nil ?? 5"
	case 7:
		return "toString(1)\ntoInt(\"5\")\nkeys({\"a" + u + "\": 1})\nfor i" + v + " in range(3) { }\ntypeOf(1.5)\nkindOf(\"s\")"
	case 8:
		return "so" + v + " = import(\"sort\")\nl" + v + " = [3, 1, 2]\nso" + v + ".Slice(l" + v + ", func(i, j) { return l" + v + "[i] < l" + v + "[j] })\nl" + v + "[0]"
	case 9:
		return "n" + v + " = 5\nswitch n" + v + " {\ncase 1, 2:\nn" + v + "++\ncase 5:\nn" + v + " += 2\ndefault:\nn" + v + "--\n}\nq" + v + " = &n" + v + "\n*q" + v + " = 6\nz" + v + " = n" + v + " > 5 ? \"a\" : \"b\""
	case 10:
		return "a" + v + " = [1, 2, 3]\na" + v + " += 4\nb" + v + " = a" + v + "[1:3]\ns" + v + " = \"abc\" + 1\ns" + v + "[1:2]\nm" + v + " = {\"k" + u + "\": [1, {\"z\": 2}]}\nm" + v + ".k" + u + "[1].z\ndelete(m" + v + ", \"k" + u + "\")"
	case 12, 13:
		// function literals of a shape (number of parameters, variadic or not) no earlier round has evaluated
		n := 5 + int(c01Shape.Add(1))%110
		var ps, as []string
		for i := 0; i < n; i++ {
			ps = append(ps, "q"+strconv.Itoa(i))
			as = append(as, strconv.Itoa(i))
		}
		if k%c01Batteries == 13 {
			ps[n-1] += "..."
		}
		return "f" + v + " = func(" + strings.Join(ps, ", ") + ") { return q0 }\nf" + v + "(" + strings.Join(as, ", ") + ")"
	default:
		return "p" + v + " = new(struct { P" + u + " *struct { Q" + u + " int64 } })\ntry { p" + v + ".P" + u + ".Q" + u + " } catch e" + v + " { }\nf" + v + " = import(\"fmt\")\nf" + v + ".Sprintf(\"%v-%v\", 1, \"" + u + "\")\nt" + v + " = import(\"time\")\nt" + v + ".Now().Unix()"
	}
}

// TestRaceC09 is the real-thread leg of C09: the property is stated per program, and the simulation runs one
// program at a time. Here eight to sixteen goroutines run generated (program, fault plan) pairs AT THE SAME TIME, each
// on its own environment, each judged by the same reference semantics. A case that fails is run again with every
// other goroutine stopped: if it passes alone, the executions interfered with each other (state the interpreter keeps
// per function type, per syntax node, per process ...) - class concurrent-differs; if it fails alone as well, the
// process has been left in a state in which the property no longer holds - class corrupted-process, with the
// original class in the text. Failures here do not replay exactly.
func TestRaceC09(t *testing.T) {
	seed, d := budget()
	p := harness.Lookup("C09")
	start := time.Now()
	end := start.Add(d)
	workers := 8 + int(seed%9)
	var gate sync.RWMutex // a failing case is re-run under the write side: alone
	var next atomic.Int64
	var ran, withOwnType atomic.Int64
	var failed atomic.Bool
	var once sync.Once
	var wg sync.WaitGroup
	for w := 0; w < workers; w++ {
		wg.Add(1)
		go func() {
			defer wg.Done()
			for time.Now().Before(end) && !failed.Load() {
				i := next.Add(1)
				c := p.Gen((seed<<20)+i, "race")
				if ks, ok := p.(harness.KnownStripper); ok {
					// the recorded known finding is the simulation's to report, once: this leg runs without its construct
					if sc, found := ks.StripKnown(c); found {
						c = sc
					}
				}
				// for a stretch of 40 ms every program that gives its probe a Go type of its own uses the SAME one
				// (so that one function type stays in use next to the script function types long enough to meet
				// them wherever the interpreter keeps something per type), then the next one
				round := int(time.Since(start) / (40 * time.Millisecond))
				if c.Knobs["ptype"] > 0 || i%2 == 0 {
					c.Knobs["ptype"] = 1 + (int(seed%1000)*37+round)%4000
				}
				if c.Knobs["ptype"] > 0 {
					withOwnType.Add(1)
				}
				gate.RLock()
				r := p.Run(nil, c, false)
				gate.RUnlock()
				ran.Add(1)
				if r.Violation == "" {
					continue
				}
				gate.Lock()
				alone := p.Run(nil, c, false)
				gate.Unlock()
				once.Do(func() {
					failed.Store(true)
					if out := os.Getenv("VERIF_RACE_OUT"); out != "" {
						b, _ := json.Marshal(map[string]any{"case": c, "class": r.Violation})
						os.WriteFile(out+".case", b, 0o644)
					}
					if alone.Violation == "" {
						fmt.Printf("REAL-LEG VIOLATION class=concurrent-differs\nwhile %d other programs were running on other goroutines (separate environments) this one violated the reference semantics (%s); run again alone, in the same process, it conforms:\n%s\n", workers-1, r.Violation, r.Detail)
					} else {
						fmt.Printf("REAL-LEG VIOLATION class=corrupted-process\nthis program violated the reference semantics (%s) while %d others were running, and still does (%s) when run alone in the same process afterwards - the sweep of single runs in fresh processes decides whether it fails there too:\n%s\n", r.Violation, workers-1, alone.Violation, alone.Detail)
					}
				})
			}
		}()
	}
	wg.Wait()
	if failed.Load() {
		t.FailNow()
	}
	report(map[string]any{"workloads": ran.Load(), "concurrent_programs": workers, "programs_whose_probe_has_its_own_go_type": withOwnType.Load(), "seconds": d.Seconds()})
}
