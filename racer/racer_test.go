// Package racer is the auxiliary race-detector leg: the same generated
// workloads as the simulation, but on real goroutines with the unmodified
// source (no overlay), built with -race. It reports only what the Go race
// detector prints (GORACE=halt_on_error exits the process with code 66).
// Failures here do not replay exactly; the lockset oracle of the simulation is
// the deterministic counterpart.
package racer

import (
	"encoding/json"
	"os"
	"strconv"
	"testing"
	"time"

	"verifsim/harness"
	_ "verifsim/props/c13"
	c13 "verifsim/props/c13"
	c14 "verifsim/props/c14"
)

func budget() (int64, time.Duration) {
	seed, _ := strconv.ParseInt(os.Getenv("VERIF_SEED"), 10, 64)
	secs, _ := strconv.Atoi(os.Getenv("VERIF_RACE_SECONDS"))
	if secs <= 0 {
		secs = 5
	}
	return seed, time.Duration(secs) * time.Second
}

func report(m map[string]any) {
	if p := os.Getenv("VERIF_RACE_OUT"); p != "" {
		b, _ := json.Marshal(m)
		os.WriteFile(p, b, 0o644)
	}
}

func TestRaceC13(t *testing.T) {
	seed, d := budget()
	p := harness.Lookup("C13")
	end := time.Now().Add(d)
	n := 0
	for i := int64(0); time.Now().Before(end); i++ {
		c := p.Gen((seed<<20)+i, "race")
		for rep := 0; rep < 4; rep++ {
			if msg := c13.RunReal(c); msg != "" {
				t.Fatalf("operation panicked on real goroutines: %s", msg)
			}
		}
		n++
	}
	report(map[string]any{"workloads": n, "repeats_each": 4, "seconds": d.Seconds()})
}

func TestRaceC14(t *testing.T) {
	seed, d := budget()
	p := harness.Lookup("C14")
	end := time.Now().Add(d)
	n := 0
	for i := int64(0); time.Now().Before(end); i++ {
		c := p.Gen((seed<<20)+i, "race")
		for rep := 0; rep < 2; rep++ {
			if msg := c14.RunReal(c); msg != "" {
				t.Fatalf("execution panicked on real goroutines: %s", msg)
			}
		}
		n++
	}
	if g := c14.ProcessGlobals(); g != "" {
		t.Fatalf("process-wide values modified: %s", g)
	}
	if g := c14.ScanSmallInts(); g != "" {
		t.Fatalf("process-wide values modified: %s", g)
	}
	report(map[string]any{"workloads": n, "repeats_each": 2, "seconds": d.Seconds()})
}
