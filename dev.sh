#!/bin/bash
# dev helper: regenerate overlay, build worker into /tmp/vg, run one sweep and summarise
export GOFLAGS=-mod=mod GOPROXY=off GOSUMDB=off GOTOOLCHAIN=local
set -e
cd /verif
rm -rf /tmp/vg; mkdir -p /tmp/vg
go1.26.8 run ./verifgen -out /tmp/vg
go1.26.8 test -c -overlay /tmp/vg/overlay.json -o /tmp/vg/worker.test ./worker
cd /tmp/vg
VERIF_EMIT_CASES=1 VERIF_PROP=$1 VERIF_COUNT=${2:-300} VERIF_SEED_BASE=${3:-1} VERIF_OUT=/tmp/vg/out.jsonl ./worker.test -test.run '^TestWorker$' -test.timeout 0 | tail -3
python3 - <<'PY'
import json,collections
c=collections.Counter(); steps=0; n=0; sw=0; first={}
for l in open('/tmp/vg/out.jsonl'):
    d=json.loads(l)
    if d["kind"] in ("done","agg"): print(d["kind"], d.get("runs")); continue
    r=d['res']; n+=1; steps+=r['steps']; sw+=r['switches']
    k=r.get('violation','')+'|'+r.get('signature','')[:100]+'|'+r.get('inconclusive','')+'|'+r.get('outcome','')
    c[k]+=1
    if r.get('violation') and k not in first: first[k]=d
for k,v in c.most_common(): print(v,k)
print('cases',n,'steps',steps,'switches',sw)
for k,d in list(first.items())[:3]:
    print('---',k); print(d['res'].get('detail','')[:1500]); print(json.dumps(d['case'])[:1200])
PY
