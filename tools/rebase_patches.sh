#!/bin/bash
# re-base recorded patches that no longer apply to /repo's HEAD after a fix: commit the patch on the commit it was
# written against ($1), rebase that commit onto HEAD, keep the original beside the new one (patch.base-<old>.diff).
# usage: tools/rebase_patches.sh <old-base-commit> <patch files...>; prints OK / CONFLICT per patch
OLD=$1; shift
NEW=$(git -C /repo rev-parse --short HEAD)
WT=$(mktemp -d /tmp/rebase-XXXX)
git -C /repo worktree add -q --detach $WT/wt $OLD || exit 2
HERE=$(pwd)
for f in "$@"; do
  cd $HERE; f=$(readlink -f $f); d=$(dirname $f)
  cd $WT/wt; git checkout -q --detach $OLD; git reset -q --hard; git clean -fdq
  if ! git apply $f 2>/dev/null; then echo "NOBASE   $f"; continue; fi
  git add -A; git -c user.name=x -c user.email=x@x commit -qm tmp
  if git -c user.name=x -c user.email=x@x rebase -q --onto $NEW $OLD >/dev/null 2>&1; then
    cp $f $d/patch.base-$OLD.diff
    git diff $NEW HEAD > $f
    echo "OK       $f"
  else
    git rebase --abort 2>/dev/null
    echo "CONFLICT $f"
  fi
done
cd /; git -C /repo worktree remove --force $WT/wt; rm -rf $WT; git -C /repo worktree prune
