#!/bin/bash
# run every recorded broken tree (mutants/*.diff, seeded/*/patch.diff) against the check of its
# property, each in its own scratch worktree (overlaid through VERIF_REPO: /repo is not touched),
# several at a time. Prints one line per patch: CAUGHT / MISSED / TROUBLE.
# usage: tools/regress.sh [jobs] [filter-regex]
cd "$(dirname "$(readlink -f "$0")")/.." || exit 2
JOBS=${1:-5}; FILTER=${2:-.}
OUT=$(mktemp -d /tmp/regress-XXXX)
list=()
for f in mutants/*.diff seeded/*/patch.diff; do
  name=$(echo "$f" | sed 's#mutants/##; s#seeded/##; s#/patch.diff##; s#.diff##')
  echo "$name" | grep -qE "$FILTER" || continue
  case "$name" in
    C12-w17b) P=C13;;
    c13_*|C13-*|rev_fix_symbols_len|rev_fix_extlookup_lock|rev_fix_string_module) P=C13;; c12_*|C12-*|rev_fix_envfrompath|rev_fix_copy_cells) P=C12;; c02_*|C02-*|rev_fix_nilcoalesce|rev_fix_okexpr_interrupt|rev_fix_defer_interrupt) P=C02;;
    c16_*|C16-*|rev_fix_close_iface) P=C16;; c09_*|C09-*|rev_fix_throw_empty) P=C09;; c14_*|C14-*|rev_fix_nil_values|rev_fix_env_nilvalue|rev_fix_ident_nilvalue|rev_fix_import_nilvalue) P=C14;; c01_*|C01-*|rev_fix_go_recover|rev_fix_deref_nil|rev_fix_spread_fixed_arity|rev_fix_forin_nil|rev_fix_nil_operands|rev_fix_degenerate_forms|rev_fix_nil_module|rev_fix_nil_module_path|rev_fix_unexported_field|rev_fix_nil_iface_member|rev_fix_module_tostring|rev_fix_map_member_key|rev_fix_chanof_recover) P=C01;; *) continue;;
  esac
  list+=("$name|$P|$f")
done
run_one() {
  IFS='|' read -r name P f <<<"$1"
  wt=$OUT/wt-$name
  git -C /repo worktree add -q --detach "$wt" HEAD 2>/dev/null || { echo "TROUBLE $name worktree"; return; }
  # strict first; a patch whose context moved (a later fix nearby) is merged three-way; a real conflict is TROUBLE
  if git -C "$wt" apply "$(readlink -f "$f")" 2>/dev/null || { git -C "$wt" apply --3way "$(readlink -f "$f")" >/dev/null 2>&1 && ! git -C "$wt" diff --name-only --diff-filter=U | grep -q . ; }; then
    mkdir -p "$OUT/r-$name"
    VERIF_REPO=$wt VERIF_REPLAY_DIR=$OUT/r-$name VERIF_EVIDENCE_DIR=$OUT/r-$name ./bin/check $P --workers 3 > "$OUT/$name.log" 2>&1
    rc=$?
    cls=$(grep -m1 "class:" "$OUT/$name.log" | sed 's/ *class: //')
    case $rc in 1) echo "CAUGHT  $P $name  [$cls]";; 0) echo "MISSED  $P $name";; *) echo "TROUBLE $P $name rc=$rc $(tail -1 "$OUT/$name.log" | cut -c1-150)";; esac
  else
    echo "TROUBLE $name patch does not apply"
  fi
  git -C /repo worktree remove --force "$wt" 2>/dev/null
}
export -f run_one; export OUT
export GOFLAGS=-mod=mod GOPROXY=off GOSUMDB=off GOTOOLCHAIN=local
go1.26.8 build -o bin/check ./cmd/check || exit 2
printf '%s\n' "${list[@]}" | xargs -P "$JOBS" -I{} bash -c 'run_one "{}"' | sort
git -C /repo worktree prune
rm -rf "$OUT"
