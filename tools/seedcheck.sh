#!/bin/bash
# confirm a sub-agent's seeded change in its scratch worktree, then run our check against it
# usage: tools/seedcheck.sh <PROP> <x> [check-args...]
export GOFLAGS=-mod=mod GOPROXY=off GOSUMDB=off
P=$1; X=$2; shift 2
SRC=${SEEDOUT:-/tmp/seed-out}/$P/$X; WT=${WTPREFIX:-/tmp/wt-}$P; DST=/verif/seeded/$P-$X
[ -f $SRC/patch.diff ] || { echo "no patch"; exit 2; }
mkdir -p $DST; cp -r $SRC/* $DST/
cd $WT && git checkout -q -- . && git clean -fdq
demo=$(ls $SRC/*_test.go 2>/dev/null | head -1)
pkgdir=$(python3 -c "
import json,re,sys
m=json.load(open('$SRC/meta.json'))
c=m.get('demo_cmd','')
mm=re.search(r'\./(\w+)/?', c)
print(mm.group(1) if mm else 'vm')")
tests=$(grep -ohE "^func (Test[A-Za-z0-9_]+)" $demo | sed 's/func //' | paste -sd'|')
echo "== demo file: $demo -> package dir $pkgdir tests: $tests"
run_demo() { if [ -n "$demo" ]; then cp $demo $WT/$pkgdir/zz_seed_demo_test.go; (cd $WT && timeout 600 go test -vet=off -count=1 -run "$tests" ./$pkgdir/ 2>&1 | tail -15); rc=${PIPESTATUS[0]}; rm -f $WT/$pkgdir/zz_seed_demo_test.go; fi; }
echo "== clean tree demo (must pass)"; run_demo
git apply $SRC/patch.diff || { echo "patch does not apply"; exit 2; }
echo "== build + existing suite with patch"; go build ./... && go test -vet=off -count=1 ./... 2>&1 | tail -12
echo "== patched demo (must fail)"; run_demo
git checkout -q -- . && git clean -fdq
echo "== our check"
cd /verif && tools/mut.sh $SRC/patch.diff $P "$@" 2>&1 | grep -E "VIOLATION|KNOWN|class:|exit=|check:|quick:|thorough:" | head -12
