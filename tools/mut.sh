#!/bin/bash
# apply a patch to /repo, run a check, and always undo the patch
# usage: tools/mut.sh <patch.diff> <property> [check args...]
patch=$(readlink -f "$1"); shift
if ! git -C /repo diff --quiet; then echo "mut.sh: /repo has uncommitted changes" >&2; exit 2; fi
git -C /repo apply "$patch" || { echo "mut.sh: patch does not apply" >&2; exit 2; }
trap 'git -C /repo checkout -- . ' EXIT
/verif/check "$@"
echo "exit=$?"
