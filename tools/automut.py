#!/usr/bin/env python3
"""Systematic single-site mutation sweep over the files the claimed properties are anchored in.

phase gen    : list mutants (statement deletion, condition negation, lock-mode swap, token swaps)
phase filter : per mutant, in a scratch worktree: build + the existing suite; survivors (= "compiles and
               passes the existing tests") are written as <out>/survivors/<id>.diff
phase check  : every survivor against the quick tier of the checks mapped to its file (through VERIF_REPO,
               /repo is never touched); one line per mutant: CAUGHT <by> / MISSED / TROUBLE

usage: automut.py gen <out> [sample-per-file]
       automut.py filter <out> [jobs]
       automut.py check <out> [jobs]
Scratch worktrees live under <out>/wt-* and are removed at the end of each phase.
"""
import json, os, re, subprocess, sys, random, shutil, concurrent.futures as cf

REPO = '/repo'
FILES = {
    'env/env.go': 'env', 'env/envValues.go': 'env', 'env/envTypes.go': 'env',
    'vm/vm.go': 'vm', 'vm/vmStmt.go': 'vm', 'vm/vmExpr.go': 'vm', 'vm/vmExprFunction.go': 'vm',
    'vm/vmLetExpr.go': 'vm',
}
CHECKS = {'env': ['C13', 'C12'], 'vm': ['C02', 'C09', 'C16', 'C14', 'C01']}
ENV = dict(os.environ, GOFLAGS='-mod=mod', GOPROXY='off', GOSUMDB='off')

SIMPLE = re.compile(r'^\s*[A-Za-z_*(\[]')
BAD_START = re.compile(r'^\s*(//|case\b|default\b|func\b|type\b|var\b|import\b|package\b|return\b|else\b|\}|if\b|for\b|switch\b|select\b|go\b.*\{$|defer func)')
IF_RE = re.compile(r'^(\s*(?:\}\s*else\s+)?if\s+)((?:[^;{]*;\s*)?)(.+?)(\s*\{\s*)$')
SWAPS = [(' == ', ' != '), (' != ', ' == '), (' < ', ' <= '), (' > ', ' >= '), (' && ', ' || '), (' || ', ' && '),
         ('.RLock()', '.Lock()'), ('break', 'continue'), ('continue', 'break'), (' + 1', ' - 1'), ('i++', 'i--')]


def gen(out, sample, blocks=False):
    muts = []
    rnd = random.Random(18)
    for f, area in FILES.items():
        lines = open(os.path.join(REPO, f)).read().split('\n')
        cand = []
        depth_paren = 0
        in_func = False
        for i, l in enumerate(lines):
            s = l.strip()
            if l.startswith('func '):
                in_func = True
            if not in_func or not s:
                continue
            prev = lines[i - 1].rstrip() if i else ''
            cont = prev.endswith((',', '(', '&&', '||', '+', '{')) and not prev.rstrip().endswith(') {') and prev.endswith((',', '(', '&&', '||', '+'))
            # statement deletion
            if not blocks and SIMPLE.match(l) and not BAD_START.match(l) and not s.endswith(('{', ',', '(', '&&', '||')) and not cont and l.startswith('\t'):
                cand.append((i, 'del', l, None))
            m = IF_RE.match(l)
            if m and not cont and not blocks:
                cand.append((i, 'neg', l, m.group(1) + m.group(2) + '!(' + m.group(3) + ')' + m.group(4)))
            if not s.startswith('//') and not blocks:
                for a, b in SWAPS:
                    if a in l:
                        cand.append((i, 'swap:' + a.strip() + '>' + b.strip(), l, l.replace(a, b, 1)))
            # whole-block deletion: a one-clause poll (select), a guard (if without else), a deferred recover literal
            if blocks and (s == 'select {' or (s.startswith('if ') and s.endswith('{')) or s == 'defer func() {') and not cont:
                ind = l[:len(l) - len(l.lstrip())]
                j = i + 1
                while j < len(lines) and not (lines[j].startswith(ind + '}') and not lines[j].startswith(ind + '\t')):
                    j += 1
                if j < len(lines) and lines[j].strip() in ('}', '}()') and j - i <= 12:
                    cand.append((i, 'delblock%d' % (j - i + 1), l, None))
        if sample and len(cand) > sample:
            # keep everything that touches what the properties are about, sample the rest
            hot = re.compile(r'Lock|Unlock|ctx|Done|recover|defer|ErrInterrupt|Err(Break|Continue|Return)|go |chan|Chan|Send|Recv|Close|Select|runDefers|defers|goCall|Copy|parent|externalLookup|finally|Finally|Catch|catch|throw|Throw')
            keep = [c for c in cand if hot.search(c[2])]
            rest = [c for c in cand if not hot.search(c[2])]
            rnd.shuffle(rest)
            cand = keep + rest[:max(0, sample - len(keep))]
        for (i, op, old, new) in cand:
            muts.append({'id': '%s:%d:%s' % (f, i + 1, op), 'file': f, 'line': i + 1, 'op': op, 'old': old, 'new': new, 'area': area})
    os.makedirs(out, exist_ok=True)
    json.dump(muts, open(os.path.join(out, 'mutants.json'), 'w'), indent=1)
    by = {}
    for m in muts:
        by[m['file']] = by.get(m['file'], 0) + 1
    print(len(muts), 'mutants', by)


def sh(cmd, cwd, timeout=600):
    try:
        p = subprocess.run(cmd, cwd=cwd, env=ENV, shell=True, stdout=subprocess.PIPE, stderr=subprocess.STDOUT, timeout=timeout)
        return p.returncode, p.stdout.decode(errors='replace')
    except subprocess.TimeoutExpired:
        return 124, 'timeout'


def mkwt(out, k):
    wt = os.path.join(out, 'wt-%d' % k)
    if not os.path.isdir(wt):
        sh('git -C %s worktree add -q --detach %s HEAD' % (REPO, wt), '/')
    return wt


def apply(wt, m):
    p = os.path.join(wt, m['file'])
    lines = open(p).read().split('\n')
    assert lines[m['line'] - 1] == m['old'], m['id']
    if m['op'] == 'del':
        del lines[m['line'] - 1]
    elif m['op'].startswith('delblock'):
        del lines[m['line'] - 1:m['line'] - 1 + int(m['op'][8:])]
    else:
        lines[m['line'] - 1] = m['new']
    open(p, 'w').write('\n'.join(lines))


def slug(m):
    return re.sub(r'[^A-Za-z0-9]+', '_', m['id']).strip('_')


def filter_one(args):
    out, k, ms = args
    wt = mkwt(out, k)
    res = []
    for m in ms:
        sh('git checkout -q -- .', wt)
        apply(wt, m)
        pk = './env/ ./vm/ .' if m['area'] == 'env' else './vm/ .'
        rc, o = sh('go build ./... ', wt, 300)
        if rc != 0:
            res.append((m['id'], 'nobuild'))
            continue
        rc, o = sh('go test -vet=off -count=1 -timeout 180s %s' % pk, wt, 400)
        if rc != 0:
            res.append((m['id'], 'killed-by-suite'))
            continue
        rc, d = sh('git diff', wt)
        open(os.path.join(out, 'survivors', slug(m) + '.diff'), 'w').write(d)
        res.append((m['id'], 'survived'))
    sh('git checkout -q -- .', wt)
    return res


def phase_filter(out, jobs):
    muts = json.load(open(os.path.join(out, 'mutants.json')))
    os.makedirs(os.path.join(out, 'survivors'), exist_ok=True)
    chunks = [(out, k, muts[k::jobs]) for k in range(jobs)]
    allres = {}
    with cf.ThreadPoolExecutor(jobs) as ex:
        for r in ex.map(filter_one, chunks):
            for i, v in r:
                allres[i] = v
    json.dump(allres, open(os.path.join(out, 'filter.json'), 'w'), indent=1)
    cnt = {}
    for v in allres.values():
        cnt[v] = cnt.get(v, 0) + 1
    print(cnt)
    for k in range(jobs):
        sh('git -C %s worktree remove --force %s' % (REPO, os.path.join(out, 'wt-%d' % k)), '/')
    sh('git -C %s worktree prune' % REPO, '/')


def check_one(args):
    out, k, ms, props = args
    wt = mkwt(out, 100 + k)
    res = []
    for m in ms:
        sh('git checkout -q -- .', wt)
        # the survivor's recorded diff (tolerates line offsets when /repo's HEAD has moved since the filter phase)
        rc, o = sh('git apply %s' % os.path.join(out, 'survivors', slug(m) + '.diff'), wt)
        if rc != 0:
            line = 'STALE %s (the mutated line was changed by a later commit)' % m['id']
            print(line, flush=True)
            res.append(line)
            continue
        got = []
        for P in (props or CHECKS[m['area']]):
            r = os.path.join(out, 'r-%d' % k)
            os.makedirs(r, exist_ok=True)
            env = 'VERIF_REPO=%s VERIF_REPLAY_DIR=%s VERIF_EVIDENCE_DIR=%s' % (wt, r, r)
            rc, o = sh('%s /verif/bin/check %s --workers 3 %s' % (env, P, os.environ.get('AUTOMUT_ARGS', '')), '/verif', 1500)
            cls = re.search(r'class:\s*(\S+)', o)
            if rc == 1:
                got.append('%s[%s]' % (P, cls.group(1) if cls else '?'))
                break
            elif rc != 0:
                got.append('%s:rc=%d' % (P, rc))
            shutil.rmtree(r, ignore_errors=True)
        verdict = 'CAUGHT' if any('[' in g for g in got) else ('TROUBLE' if got else 'MISSED')
        line = '%s %s %s' % (verdict, m['id'], ' '.join(got))
        print(line, flush=True)
        res.append(line)
    sh('git checkout -q -- .', wt)
    return res


def phase_check(out, jobs, props=None, only=None):
    muts = json.load(open(os.path.join(out, 'mutants.json')))
    fr = json.load(open(os.path.join(out, 'filter.json')))
    surv = [m for m in muts if fr.get(m['id']) == 'survived' and (not only or re.search(only, m['id']))]
    done = set()
    rp = os.path.join(out, 'check.txt')
    if os.path.exists(rp):
        for l in open(rp):
            done.add(l.split()[1])
    surv = [m for m in surv if m['id'] not in done]
    print(len(surv), 'survivors to check', flush=True)
    chunks = [(out, k, surv[k::jobs], props) for k in range(jobs)]
    with cf.ThreadPoolExecutor(jobs) as ex, open(rp, 'a') as f:
        for r in ex.map(check_one, chunks):
            for l in r:
                f.write(l + '\n')
    for k in range(jobs):
        sh('git -C %s worktree remove --force %s' % (REPO, os.path.join(out, 'wt-%d' % (100 + k))), '/')
    sh('git -C %s worktree prune' % REPO, '/')


if __name__ == '__main__':
    ph, out = sys.argv[1], sys.argv[2]
    if ph == 'gen':
        gen(out, int(sys.argv[3]) if len(sys.argv) > 3 else 0)
    elif ph == 'genblocks':
        gen(out, int(sys.argv[3]) if len(sys.argv) > 3 else 0, True)
    elif ph == 'filter':
        phase_filter(out, int(sys.argv[3]) if len(sys.argv) > 3 else 6)
    elif ph == 'check':
        phase_check(out, int(sys.argv[3]) if len(sys.argv) > 3 else 3,
                    sys.argv[4].split(',') if len(sys.argv) > 4 and sys.argv[4] != '-' else None,
                    sys.argv[5] if len(sys.argv) > 5 else None)
