#!/bin/bash
# confirm and try one sub-agent's deliverables of a wave: a, b (breaking) through seedcheck2, c (benign) copied to benign/<wave>/
# usage: tools/wave.sh <wave e.g. w14> <PROP>
W=$1; P=$2
SRC=/tmp/$W/out/$P; WT=/tmp/$W/wt-$P
for x in a b; do
  [ -f $SRC/$x/patch.diff ] || { echo "== $P-$W$x: no patch"; continue; }
  echo "######## $P-$W$x: $(python3 -c "import json;print(json.load(open('$SRC/$x/meta.json'))['title'][:160])" 2>/dev/null)"
  /verif/tools/seedcheck2.sh $SRC/$x $WT $P $P-$W$x 2>&1
done
if [ -f $SRC/c/patch.diff ]; then mkdir -p /verif/benign/$W/$P-${W}c; cp -r $SRC/c/* /verif/benign/$W/$P-${W}c/; echo "== benign copied"; fi
[ -f $SRC/OBSERVATIONS.md ] && mkdir -p /verif/observations && cp $SRC/OBSERVATIONS.md /verif/observations/OBS-$W-$P.md
true
