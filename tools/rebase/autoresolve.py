import re,sys,subprocess,os
wt=sys.argv[1]
LINE=re.compile(r'^(\s*)buffer\.WriteString\(fmt\.Sprintf\("%v = %#v\\n", (\w+), (.+)\)\)\s*$',re.M)
def resolve(path):
    s=open(path).read(); ok=True
    pat=re.compile(r'<<<<<<< ours\n(.*?)=======\n(.*?)>>>>>>> theirs\n',re.S)
    def rep(m):
        nonlocal ok
        ours,theirs=m.group(1),m.group(2)
        ol=ours.split('\n')
        if ol and ol[0].strip()=='value = ownNilValue(value)' and 'ownNilValue' not in theirs:
            return ol[0]+'\n'+theirs
        if ours.startswith('// ownNilValue replaces') and ours.rstrip().endswith('return value') and 'ownNilValue' not in theirs:
            return ours+'}\n\n'+theirs
        if 'a bound module is another scope' in ours:
            ms=LINE.findall(theirs)
            if len(ms)==1:
                ind,sym,expr=ms[0]
                blk=(ind+'if value := '+expr+'; value.IsValid() && value.CanInterface() {\n'+ind+'\tif module, isEnv := value.Interface().(*Env); isEnv {\n'+ind+'\t\t// a bound module is another scope with a lock of its own: name it, do not walk its tables\n'+ind+'\t\tbuffer.WriteString(fmt.Sprintf("%v = (%T)(%p)\\n", '+sym+', module, module))\n'+ind+'\t\tcontinue\n'+ind+'\t}\n'+ind+'}\n')
                return LINE.sub(lambda mm: blk+mm.group(0), theirs, count=1)
        ok=False
        return m.group(0)
    s2=pat.sub(rep,s)
    if ok and '<<<<<<<' not in s2:
        open(path,'w').write(s2); return True
    return False
files=subprocess.run(['git','-C',wt,'diff','--name-only','--diff-filter=U'],stdout=subprocess.PIPE).stdout.decode().split()
sys.exit(0 if all(resolve(os.path.join(wt,f)) for f in files) else 1)
