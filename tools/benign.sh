#!/bin/bash
# run EVERY check against behaviour-preserving changes (benign/*/patch.diff or a directory given as $1):
# each must stay silent (exit 0). One scratch worktree per patch, overlaid through VERIF_REPO.
# usage: tools/benign.sh [dir] [jobs]
cd "$(dirname "$(readlink -f "$0")")/.." || exit 2
DIR=${1:-benign}; JOBS=${2:-3}
OUT=$(mktemp -d /tmp/benign-XXXX)
export GOFLAGS=-mod=mod GOPROXY=off GOSUMDB=off GOTOOLCHAIN=local
go1.26.8 build -o bin/check ./cmd/check || exit 2
run_one() {
  f=$1; name=$(echo "$f" | sed 's#/patch.diff##; s#.*/\([^/]*/[^/]*\)$#\1#; s#/#-#g')
  wt=$OUT/wt-$name
  git -C /repo worktree add -q --detach "$wt" HEAD 2>/dev/null || { echo "TROUBLE $name worktree"; return; }
  # strict first; a patch whose context moved (a later fix nearby) is merged three-way; a real conflict is TROUBLE
  if git -C "$wt" apply "$(readlink -f "$f")" 2>/dev/null || { git -C "$wt" apply --3way "$(readlink -f "$f")" >/dev/null 2>&1 && ! git -C "$wt" diff --name-only --diff-filter=U | grep -q . ; }; then
    res=""
    for P in C13 C12 C02 C16 C14 C09 C01; do
      mkdir -p "$OUT/r-$name"
      VERIF_REPO=$wt VERIF_REPLAY_DIR=$OUT/r-$name VERIF_EVIDENCE_DIR=$OUT/r-$name ./bin/check $P --workers 4 > "$OUT/$name.$P.log" 2>&1
      rc=$?
      if [ $rc -ne 0 ]; then res="$res $P:rc=$rc[$(grep -m1 -E 'class:|check:' "$OUT/$name.$P.log" | cut -c1-90)]"; mkdir -p /tmp/benign-fail; cp "$OUT/$name.$P.log" /tmp/benign-fail/; cp "$OUT/r-$name"/*.json /tmp/benign-fail/ 2>/dev/null; fi
    done
    if [ -z "$res" ]; then echo "SILENT  $name"; else echo "ALARM   $name $res"; fi
  else
    echo "TROUBLE $name patch does not apply"
  fi
  git -C /repo worktree remove --force "$wt" 2>/dev/null
}
export -f run_one; export OUT
find "$DIR" -name patch.diff | sort | xargs -P "$JOBS" -I{} bash -c 'run_one "{}"' | sort
git -C /repo worktree prune
rm -rf "$OUT"
