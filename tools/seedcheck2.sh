#!/bin/bash
# like seedcheck.sh but never touches /repo: the check runs against the scratch worktree through VERIF_REPO.
# usage: tools/seedcheck2.sh <srcdir> <worktree> <PROP> <name> [check-args...]
export GOFLAGS=-mod=mod GOPROXY=off GOSUMDB=off GOTOOLCHAIN=local
SRC=$1; WT=$2; P=$3; NAME=$4; shift 4
DST=/verif/seeded/$NAME
[ -f $SRC/patch.diff ] || { echo "no patch"; exit 2; }
mkdir -p $DST; cp -r $SRC/* $DST/
cd $WT && git checkout -q -- . && git clean -fdq
# the sub-agent may have worked on an older commit than /repo's HEAD (fixes committed meanwhile): judge base HEAD + patch
HEADNOW=$(git -C /repo rev-parse HEAD); WAS=$(git rev-parse --short HEAD)
if [ "$(git rev-parse HEAD)" != "$HEADNOW" ]; then git checkout -q --detach $HEADNOW; echo "== worktree moved from $WAS to /repo's HEAD $(git rev-parse --short HEAD)"; fi
demo=$SRC/demo_test.go
pkgdir=$(grep -m1 -oE 'go test.*' $demo | grep -oE '\./[A-Za-z0-9_]+' | tail -1 | sed 's#\./##'); [ -n "$pkgdir" ] || pkgdir=vm
race=""; grep -m3 'go test' $demo | grep -q -- '-race' && race="-race"
echo "== demo -> dir $pkgdir $race"
run_demo() { mkdir -p $WT/$pkgdir; cp $demo $WT/$pkgdir/zz_seed_demo_test.go; (cd $WT && timeout 900 go test $race -vet=off -count=1 ./$pkgdir/ -run 'Demo|Test[A-Z]' 2>&1 | grep -vE '^\s*$' | tail -8); rm -f $WT/$pkgdir/zz_seed_demo_test.go; rmdir $WT/$pkgdir 2>/dev/null; }
if [ -z "$SKIPDEMO" ]; then
echo "== clean tree demo (must pass)"; if [ "$pkgdir" = vm ] || [ "$pkgdir" = env ]; then tests=$(grep -ohE "^func (Test[A-Za-z0-9_]+)" $demo | sed 's/func //' | paste -sd'|'); run_demo() { cp $demo $WT/$pkgdir/zz_seed_demo_test.go; (cd $WT && timeout 900 go test $race -vet=off -count=1 -run "$tests" ./$pkgdir/ 2>&1 | tail -8); rm -f $WT/$pkgdir/zz_seed_demo_test.go; }; fi
run_demo
fi
if ! git apply $SRC/patch.diff 2>/dev/null; then
  if git apply -3 $SRC/patch.diff 2>/dev/null && ! git diff --name-only --diff-filter=U | grep -q .; then
    git reset -q; cp $SRC/patch.diff $DST/patch.base-$WAS.diff; git diff > $DST/patch.diff; echo "== patch re-based onto HEAD by 3-way merge (original kept as patch.base-$WAS.diff)"
  else
    echo "patch does not apply to /repo's HEAD (written against $WAS): needs a manual re-base"; git checkout -q -- . ; git clean -fdq; exit 2
  fi
fi
if [ -z "$SKIPDEMO" ]; then
echo "== build + existing suite with patch"; go build ./... && go test -vet=off -count=1 ./... 2>&1 | grep -v "no test files" | tail -8
echo "== patched demo (must fail)"; run_demo
fi
if [ -n "$NOCHECK" ]; then cd $WT && git checkout -q -- . && git clean -fdq; exit 0; fi
echo "== our check (VERIF_REPO=$WT)"
R=$(mktemp -d /tmp/sc2-XXXX)
cd /verif && VERIF_REPO=$WT VERIF_REPLAY_DIR=$R VERIF_EVIDENCE_DIR=$R ./check $P "$@" 2>&1 | grep -E "VIOLATION|KNOWN|class:|exit|quick:|thorough:|REAL-LEG|trouble" | cut -c1-400 | head -12
echo "check exit=${PIPESTATUS[0]}"
rm -rf $R
cd $WT && git checkout -q -- . && git clean -fdq
