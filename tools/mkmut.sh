#!/bin/bash
# save the current uncommitted change of /repo as a mutant patch and undo it
# usage: tools/mkmut.sh <name>
cd /repo && go build ./... || { echo "does not build"; git checkout -- .; exit 1; }
git diff > /verif/mutants/$1.diff; git checkout -- .; wc -l /verif/mutants/$1.diff
