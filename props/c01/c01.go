// Package c01: a script can never crash the embedding Go program - the
// host-fault slice only.
//
// What deterministic simulation reaches of C01 is the part where the HOST
// misbehaves at an arbitrary instant: programs reach host functions through
// every call context (direct, nested argument, Go struct methods, variadic and
// spread, `go` at all four spawn sites, `defer`, callbacks, catch / finally /
// module / loop bodies, deferred inside a goroutine), and at the k-th host call
// the simulator injects a panic (string / error / other value / genuine runtime
// error), an error result, a nil func result, closes a channel the script is
// using, or cancels the context. Options{Debug:false} only.
//
// Oracle: ExecuteContext returns to the harness task; no panic unwinds out of
// any goroutine the script started (that panic would have killed the process);
// the worker process is alive at the end. Arbitrary source bytes and ill-typed
// operand combinations - the other half of C01's quantifier - are input
// generation over a pure function and are NOT covered here.
package c01

import (
	"context"
	"encoding/json"
	"errors"
	"fmt"
	"os"
	"path/filepath"
	"strconv"
	"strings"
	"sync"
	"testing"

	"github.com/mattn/anko/core"
	"github.com/mattn/anko/env"
	"github.com/mattn/anko/vm"

	"verifsim/harness"
	"verifsim/simrt"
)

type Site struct {
	K    int `json:"k"`
	Wrap int `json:"w,omitempty"`
}

type Work struct {
	Sites   []Site `json:"sites"`
	CtxMode int    `json:"ctx_mode,omitempty"` // 0 simulated cancellable context, 1 context.Background(), 2 vm.Execute (no context argument)
	Cut     int    `json:"cut,omitempty"`      // >0: the source text handed to the interpreter ends after this many bytes (a program that arrives truncated)
}

const nSites = 147
const nWraps = 7

func siteSrc(k int, id string) string {
	switch k % nSites {
	case 0:
		return "h(" + id + ")"
	case 1:
		return "x" + id + " = hid(h(" + id + ")) + 1"
	case 2:
		return "objM(" + id + ")"
	case 3:
		return "objV(" + id + ")"
	case 4:
		return "hv(" + id + ", 2, 3)"
	case 5:
		return "hv([" + id + ", 2]...)"
	case 6:
		return "go h(" + id + ")"
	case 7:
		return "go func() { h(" + id + ") }()"
	case 8:
		return "func g" + id + "(a, b, c, d, e) { h(" + id + ") }\ngo g" + id + "(1, 2, 3, 4, 5)"
	case 9:
		return "go hv(" + id + ", 2)"
	case 10:
		return "go objM(" + id + ")"
	case 11:
		return "func w" + id + "(a, b...) { h(" + id + ") }\ngo w" + id + "(1, 2)"
	case 12:
		return "func d" + id + "() { defer h(" + id + ") }\nd" + id + "()"
	case 13:
		return "func d" + id + "() { defer func() { h(" + id + ") }() }\nd" + id + "()"
	case 14:
		return "defer h(" + id + ")"
	case 15:
		return "call(func() { h(" + id + ") })"
	case 16:
		return "callr(func(x) { return h(" + id + ") })"
	case 17:
		return "callr(func(x) { h(" + id + "); return \"notint\" })"
	case 18:
		return "go func() { defer h(" + id + "); h(1" + id + ") }()"
	case 19:
		return "f" + id + " = hf()\nf" + id + "()"
	case 20:
		return "f" + id + " = hf()\ngo f" + id + "()"
	case 21:
		return "func d" + id + "() { defer hf()() }\nd" + id + "()"
	case 22:
		return "c" + id + " = make(chan int64, 1)\nhch(c" + id + ")\nc" + id + " <- 1"
	case 23:
		return "c" + id + " = make(chan int64, 1)\nhch(c" + id + ")\nclose(c" + id + ")"
	case 24:
		return "c" + id + " = make(chan int64, 1)\ngo func() { hch(c" + id + "); c" + id + " <- 1; close(c" + id + "); close(c" + id + ") }()"
	case 25:
		return "r" + id + " = hE(" + id + ")"
	case 26:
		return "go call(func() { h(" + id + ") })"
	case 27:
		return "c" + id + " = make(chan int64, 1)\nclose(c" + id + ")\ngo func() { c" + id + " <- 1 }()\ngo func() { close(c" + id + ") }()"
	case 28:
		return "go func() { h(" + id + "); throw \"x\" }()"
	case 29:
		return "go func() { h(" + id + "); [1][5] }()"
	case 30:
		return "go callr(func(x) { return h(" + id + ") })"
	case 31:
		return "go func() { func() { defer func() { h(" + id + ") }(); h(2" + id + ") }() }()"
	case 32:
		return "go hv([" + id + ", 2]...)"
	case 33:
		return "hp(" + id + ", \"a\")"
	case 34:
		return "hpf(\"x\", " + id + ")"
	case 35:
		return "func g" + id + "(a, b) { h(" + id + ") }\ng" + id + "(hnilv()...)"
	case 36:
		return "hv(hnilv()...)"
	case 37:
		return "func g" + id + "(a, b) { h(" + id + ") }\ngo g" + id + "(hnilv()...)"
	case 38:
		return "defer hv([" + id + ", 2]...)"
	case 39:
		return "func d" + id + "() { defer hp(" + id + ") }\nd" + id + "()"
	case 40:
		return "go hp(" + id + ")"
	case 41:
		return "hpe(" + id + ", 1.5)"
	case 42:
		return "nilM(" + id + ")"
	case 43:
		return "go nilM(" + id + ")"
	case 44:
		return "hs(\"s" + id + "\")"
	case 45:
		return "hp(hE(" + id + ")...)"
	case 46:
		return "go hpf(\"x\", [" + id + "]...)"
	case 47:
		return "func g" + id + "(a, b) { return a }\ng" + id + "(nil...)"
	case 48:
		return "m" + id + " = {\"f\": h}\nm" + id + ".f(" + id + ")"
	case 49:
		return "m" + id + " = {\"f\": h}\ngo m" + id + "[\"f\"](" + id + ")"
	case 50:
		return "fs" + id + " = [h, hid]\nfs" + id + "[0](" + id + ")"
	case 51:
		return "fs" + id + " = [h, hid]\ndefer fs" + id + "[0](" + id + ")"
	case 52:
		return "stF(" + id + ")"
	case 53:
		return "go stF(" + id + ")"
	case 54:
		return "x" + id + " = hf()\nx" + id + "()"
	case 55:
		return "for q" + id + " in [1, 2] { go func(k) { h(" + id + " + k) }(q" + id + ") }"
	case 56:
		return "switch h(" + id + ") {\ncase h(1" + id + "):\nh(2" + id + ")\n}"
	case 57:
		return "x" + id + " = h(" + id + ") > 0 ? h(1" + id + ") : h(2" + id + ")"
	case 58:
		return "x" + id + " = [h(" + id + "), h(1" + id + ")]\ny" + id + " = {\"k\": h(2" + id + ")}"
	case 59:
		return "c" + id + " = make(chan int64, 2)\nc" + id + " <- h(" + id + ")\nx" + id + " = <-c" + id + "\nhch(c" + id + ")\nx" + id + ", ok" + id + " = <-c" + id
	case 60:
		return "x" + id + " = 1\nhz(&x" + id + ")"
	case 61:
		return "x" + id + " = 1\nobjZ(&x" + id + ")"
	case 62:
		return "x" + id + " = 1\nfs" + id + " = [hz]\nfs" + id + "[0](&x" + id + ")"
	case 63:
		return "x" + id + " = 1\nhid(hz(&x" + id + "))"
	case 64:
		return "a" + id + " = make(chan int64, 1)\nb" + id + " = make(chan int64, 1)\na" + id + " <- 1\nhch(b" + id + ")\nb" + id + " <- a" + id
	case 65:
		return "a" + id + " = make(chan int64, 1)\nb" + id + " = make(chan int64, 1)\na" + id + " <- 1\nclose(b" + id + ")\nb" + id + " <- a" + id
	case 66:
		return "x" + id + " = 1\nhptr(&x" + id + ")\nh(x" + id + ")"
	case 67:
		return "a" + id + " = make(chan int64, 1)\nb" + id + " = make(chan int64, 1)\na" + id + " <- 1\nclose(b" + id + ")\ngo func() { b" + id + " <- a" + id + " }()"
	// values a host function handed back, used afterwards (outside the call's own recover)
	case 68:
		return "l" + id + " = make([]*int64, 1)\nx" + id + " = *l" + id + "[0]"
	case 69:
		return "s" + id + " = make(struct { P *int64 })\nx" + id + " = *s" + id + ".P"
	case 70:
		return "l" + id + " = make([]*int64, 1)\n*l" + id + "[0] = h(" + id + ")"
	case 71:
		return "x" + id + " = h(" + id + ")\n*x" + id + " = 2"
	case 72:
		return "m" + id + " = hnm()\nm" + id + "[\"k\"] = h(" + id + ")"
	case 73:
		return "m" + id + " = hnm()\nx" + id + " = m" + id + "[\"k\"]\ndelete(m" + id + ", \"k\")\nx" + id + " = len(m" + id + ")\nfor k" + id + ", v" + id + " in m" + id + " { h(" + id + ") }"
	case 74:
		return "l" + id + " = hnsp()\nfor v" + id + " in l" + id + " { h(" + id + ") }"
	case 75:
		return "l" + id + " = hnsp()\nx" + id + " = len(l" + id + ")\ny" + id + " = l" + id + "[0]"
	case 76:
		return "a" + id + " = make(*int64)\n*a" + id + " = \"s\"\n*a" + id + " = hid(nil)"
	case 77:
		return "c" + id + " = hnc()\nclose(c" + id + ")"
	case 78:
		return "c" + id + " = hnc()\ngo func() { c" + id + " <- 1 }()\ngo func() { <-c" + id + " }()"
	case 79:
		return "u" + id + " = make(struct { A int64 })\nu" + id + ".B = h(" + id + ")"
	case 80:
		return "u" + id + " = make(struct { A int64 })\nx" + id + " = u" + id + ".B"
	case 81:
		return "v" + id + " = huncmp()\nx" + id + " = v" + id + " == v" + id + "\ny" + id + " = {v" + id + ": 1}"
	case 82:
		return "v" + id + " = huncmp()\nm" + id + " = {}\nm" + id + "[v" + id + "] = 1\nx" + id + " = v" + id + " in [v" + id + "]"
	case 83:
		return "i" + id + " = hid(nil)\ni" + id + ".M(" + id + ")"
	case 84:
		return "i" + id + " = hid(nil)\nx" + id + " = i" + id + " == nil\ny" + id + " = i" + id + " ?? h(" + id + ")"
	case 85:
		return "ro" + id + " = hid(make(chan int64, 1))\nro" + id + " <- h(" + id + ")"
	case 86:
		return "ro" + id + " = hid(make(chan int64))\nclose(ro" + id + ")\nclose(ro" + id + ")"
	case 87:
		return "d" + id + " = hid(1.5)\nx" + id + " = d" + id + " * 2 + 1\ny" + id + " = d" + id + " / 0\nz" + id + " = -d" + id + "\nw" + id + " = 7 % hid(0)"
	case 88:
		return "q" + id + " = hf()\ngo q" + id + "()\ndefer q" + id + "()"
	case 89:
		return "pp" + id + " = new(*int64)\nx" + id + " = **pp" + id + "\n**pp" + id + " = h(" + id + ")"
	case 90:
		return "a" + id + " = new(struct { I interface })\na" + id + ".I = [h(" + id + ")]\nm" + id + " = {}\nm" + id + "[*a" + id + "] = 1"
	case 91:
		return "a" + id + " = make(struct { I interface })\na" + id + ".I = {\"k\": h(" + id + ")}\nm" + id + " = {a" + id + ": 1}\nx" + id + " = m" + id + "[a" + id + "]\ndelete(m" + id + ", a" + id + ")"
	case 92:
		return "m" + id + " = {}\nm" + id + "[[h(" + id + ")]] = 1\nx" + id + " = m" + id + "[{}]\ndelete(m" + id + ", [1])"
	case 93:
		return "k" + id + " = make(map[interface]int64)\nk" + id + "[[hid(1)]] = h(" + id + ")\nk" + id + "[hid([1, 2])] = 2"
	case 94:
		// a field read through a valid pointer first, then through a nil pointer of the same type
		return "p" + id + " = new(struct { A int64 })\np" + id + ".A = h(" + id + ")\nx" + id + " = p" + id + ".A\nl" + id + " = make([]*struct { A int64 }, 1)\ny" + id + " = l" + id + "[0].A"
	case 95:
		return "make(type S" + id + ", make(struct { A int64 }))\np" + id + " = new(S" + id + ")\nx" + id + " = p" + id + ".A + h(" + id + ")\ns" + id + " = make(struct { Q *S" + id + " })\ny" + id + " = s" + id + ".Q.A"
	case 96:
		return "p" + id + " = new(struct { A int64 })\nx" + id + " = p" + id + ".A\nl" + id + " = make([]*struct { A int64 }, 1)\nl" + id + "[0].A = h(" + id + ")"
	// the bundled builtins are Go functions that panic on misuse: every such panic must become an error
	case 97:
		return "keys(h(" + id + "))"
	case 98:
		return "go keys(1)\ndefer keys(nil)\nx" + id + " = range()"
	case 99:
		return "x" + id + " = range(1, 2, 0)\ny" + id + " = range(1, 2, 3, h(" + id + "))"
	case 100:
		return "go range()\ngo toIntSlice([1, \"a\"])\ngo load(\"/nonexistent" + id + "\")"
	case 101:
		return "x" + id + " = toIntSlice([1, \"a\", h(" + id + ")])\ny" + id + " = toStringSlice([1])"
	case 102:
		return "load(\"/nonexistent" + id + "\")"
	case 103:
		return "func d" + id + "() { defer range(); defer keys([1]); h(" + id + ") }\nd" + id + "()"
	case 104:
		// a library file loaded at run time: its goroutines and deferred calls fail on the host side
		return "load(libpath)"
	case 105:
		return "go load(libpath)\nlibfn = load(libpath2)\nlibfn(" + id + ")"
	case 106:
		return "try { load(libpath) } catch e" + id + " { h(" + id + ") }\ndefer load(libpath2)"
	// operators fed with values whose kind or sign is only known at run time
	case 107:
		return "x" + id + " = hid(1) << (hid(0) - 1)\ny" + id + " = 1 >> hid(-2)\nz" + id + " = hid(8) >> h(" + id + ")"
	case 108:
		return "x" + id + " = hid(1) << hid(\"-3\")\ny" + id + " = hid(2.5) << hid(-0.5)\nz" + id + " = hid(\"4\") >> hid(nil)\nw" + id + " = hid(true) << hid([1])"
	case 109:
		return "s" + id + " = hid(\"a\")\ns" + id + "++\nn" + id + " = hid(nil)\nn" + id + " += 1\nb" + id + " = hid(true)\nb" + id + "--\nc" + id + " = hid([1])\nc" + id + " -= h(" + id + ")"
	case 110:
		return "x" + id + " = -hid(\"x\")\ny" + id + " = !hid([1])\nz" + id + " = ^hid(1.5)\nw" + id + " = -hid(nil)\nv" + id + " = ^hid({})"
	case 111:
		return "x" + id + " = hid(1) ** hid(-1)\ny" + id + " = hid(\"ab\") * hid(-1)\nz" + id + " = hid([1]) * 2\nw" + id + " = hid(7) / hid(\"0\")\nv" + id + " = hid(7) % hid(0.5)"
	// what a catch block can do with the thrown value when that value is odd
	case 112:
		return "try { throw nil } catch e" + id + " {\nx" + id + " = [e" + id + "]\ny" + id + " = e" + id + ".Message\nz" + id + " = \"\" + e" + id + "\n}"
	case 113:
		return "func t" + id + "() { throw hid(nil) }\nfunc g" + id + "() { try { t" + id + "() } catch e" + id + " { return e" + id + " }; return 0 }\nx" + id + " = g" + id + "()\ntry { throw h(" + id + ") } catch e" + id + " { y" + id + " = {\"k\": e" + id + "} }"
	case 114:
		return "try { throw [hid(nil)] } catch e" + id + " { x" + id + " = e" + id + "[0] }\ntry { throw hf() } catch e" + id + " { e" + id + "() }\ntry { throw make(chan int64) } catch e" + id + " { close(e" + id + ") }"
	// for-in over things that are not containers, with one and two loop variables
	case 115:
		return "it" + id + " = func() { return [h(" + id + ")] }\nfor a" + id + ", b" + id + " in it" + id + " { }\nfor a" + id + " in it" + id + " { break }"
	case 116:
		return "for a" + id + ", b" + id + " in [hid(1)] { }\nfor a" + id + ", b" + id + " in hid(\"str\") { }\nfor a" + id + " in hid(nil) { }\nfor k" + id + ", v" + id + " in hid(5) { }\nfor a" + id + ", b" + id + " in hf() { }"
	// a spread call into Go functions with a fixed number of parameters
	case 117:
		return "x" + id + " = [" + id + ", 2]\ny" + id + " = h2(x" + id + "...)\nz" + id + " = h3([1, \"a\", nil]...)\ngo h2([3, 4]...)\ndefer h2([5, 6]...)"
	case 118:
		return "w" + id + " = h2([h(" + id + "), 2, 3]...)\nv" + id + " = h3(1, [2, 3]...)\nu" + id + " = h2([1]...)\nt" + id + " = h2(hid([1, 2])...)"
	// loop variables bound to nil pointers and to entries that no longer exist
	case 119:
		return "for x" + id + " in make([]*int64, 2) {\ny" + id + " = [x" + id + "]\nz" + id + " = x" + id + " == nil\nh(" + id + ")\n}\nc" + id + " = make(chan *int64, 1)\nc" + id + " <- nil\nclose(c" + id + ")\nfor v" + id + " in c" + id + " { w" + id + " = {\"k\": v" + id + "} }"
	case 120:
		return "m" + id + " = {\"a\": 1, \"b\": 2, \"c\": h(" + id + ")}\nfor k" + id + ", v" + id + " in m" + id + " {\ndelete(m" + id + ", \"a\")\ndelete(m" + id + ", \"b\")\ndelete(m" + id + ", \"c\")\ny" + id + " = [v" + id + "]\nz" + id + " = \"\" + v" + id + "\n}"
	// modules that reach each other (the references travel through a channel, so they are not copied on the way),
	// then a module assignment, which copies
	case 121:
		return "module A" + id + " { peer = nil; x = 1 }\nmodule B" + id + " { peer = nil; y = 2 }\nmc" + id + " = make(chan interface, 2)\nmc" + id + " <- B" + id + "\nA" + id + ".peer = <-mc" + id + "\nmc" + id + " <- A" + id + "\nB" + id + ".peer = <-mc" + id + "\nc" + id + " = A" + id + "\nh(" + id + ")"
	case 122:
		return "module S" + id + " { self = nil; v = 1 }\nmc" + id + " = make(chan interface, 1)\nmc" + id + " <- S" + id + "\nS" + id + ".self = <-mc" + id + "\ngo func() { d" + id + " = S" + id + "; h(" + id + ") }()\ne" + id + " = hid(S" + id + ")\nf" + id + " = e" + id + ""
	// a container that shrinks or grows while a for-in walks it
	case 123:
		return "qs" + id + " = [][]int64{[10, 20, 30], [40]}\nsm" + id + " = 0\nfor job" + id + " in qs" + id + "[0] {\nsm" + id + " += job" + id + "\nqs" + id + "[0] = []int64{}\nh(" + id + ")\n}"
	case 124:
		return "ls" + id + " = [1, 2, 3, 4]\nfor v" + id + " in ls" + id + " {\nls" + id + " = ls" + id + "[0:1]\n}\nts" + id + " = make([]int64, 3)\nfor w" + id + " in ts" + id + " {\nts" + id + " = ts" + id + "[:0]\nts" + id + " += h(" + id + ")\n}"
	// loaded files whose last statement has no value, and an empty file
	case 125:
		return "load(libpath3)\nx" + id + " = load(libpath3)\ny" + id + " = [load(libpath4)]\nh(" + id + ")\nload(libpath4)"
	case 126:
		return "func lf" + id + "() { return load(libpath3) }\nz" + id + " = lf" + id + "()\ngo load(libpath4)\ndefer load(libpath3)"
	// a callback the host keeps and calls after the run has returned and its context was released
	case 127:
		return "hlater(func() { lx" + id + " = 1 })\nlv" + id + " = 0\nhlater(func() { lv" + id + "++ })\nh(" + id + ")"
	// a pointer that points at itself, used wherever the interpreter unwraps pointers to get at a bool or a number
	case 128:
		return "sa" + id + " = 1\nsp" + id + " = &sa" + id + "\n*sp" + id + " = sp" + id + "\ntry { if sp" + id + " { } } catch { }\ntry { sb" + id + " = !sp" + id + " } catch { }\ntry { sc" + id + " = sp" + id + " && true } catch { }\ntry { sd" + id + " = sp" + id + " ? 1 : 2 } catch { }\ntry { for sp" + id + " { break } } catch { }\nh(" + id + ")"
	case 129:
		return "sa" + id + " = 1\nsp" + id + " = &sa" + id + "\n*sp" + id + " = sp" + id + "\ntry { se" + id + " = [1, 2, 3][sp" + id + "] } catch { }\ntry { sf" + id + " = sp" + id + " + 1 } catch { }\ntry { sg" + id + " = make([]int64, sp" + id + ") } catch { }\ntry { sh" + id + " = \"ab\"[sp" + id + ":] } catch { }\ntry { si" + id + " = 1.5 * sp" + id + " } catch { }\ntry { sj" + id + " = sp" + id + " < 2 } catch { }\ntry { sk" + id + " = -sp" + id + " } catch { }\nh(" + id + ")"
	// nil pointers and nil elements as operands of + (string on the left, slice on the left) and as the source of a
	// pointer-to-pointer conversion
	case 130:
		return "np" + id + " = make([]*int64, 1)\ntry { sx" + id + " = \"x\" + np" + id + "[0] } catch { }\nst" + id + " = make(struct { A *int64 })\ntry { sy" + id + " = \"y\" + st" + id + ".A } catch { }\ntry { sz" + id + " = []int64{1} + [nil] } catch { }\ntry { sw" + id + " = [1] + [nil, 2] } catch { }\nh(" + id + ")\nsv" + id + " = \"v\" + np" + id + "[0]"
	case 131:
		return "pa" + id + " = make([]*int64, 1)\npb" + id + " = make([]*int32, 1)\ntry { pb" + id + "[0] = pa" + id + "[0] } catch { }\npc" + id + " = make([]*string, 2)\ntry { pc" + id + "[1] = pa" + id + "[0] } catch { }\nh(" + id + ")\npb" + id + "[0] = pa" + id + "[0]"
	// a module used as an element type: the zero element is a module that is not there
	case 132:
		return "module mz" + id + " { q = 1 }\nmake(type EZ" + id + ", mz" + id + ")\naz" + id + " = make([]EZ" + id + ", 2)\ntry { bz" + id + " = az" + id + "[0].q } catch { }\ntry { az" + id + "[0].q = 1 } catch { }\ntry { cz" + id + " = az" + id + "[1] } catch { }\nh(" + id + ")\ndz" + id + " = az" + id + "[0].q"
	// degenerate forms the grammar accepts: a spread with nothing to spread, a var statement without a right-hand side
	case 133:
		return "func zf" + id + "(a) { return a }\ntry { zf" + id + "(...) } catch { }\ntry { hid(...) } catch { }\nh(" + id + ")\nif " + id + " % 2 == 0 { zf" + id + "(...) }\nvar zv" + id + " ="
	// objects built by a constructor function: a module declared in the function's body whose functions use the
	// constructor's parameters after the constructor has returned
	case 134:
		return "func nc" + id + "(start) {\nmodule cm" + id + " {\nfunc get() { return start }\nfunc add(n) { return [start, n] }\n}\nreturn cm" + id + "\n}\nco" + id + " = nc" + id + "(h(" + id + "))\nhid(1)\ncv" + id + " = co" + id + ".get()\ncw" + id + " = co" + id + ".add(2)\ncv" + id
	case 135:
		return "func pt" + id + "(x, y) {\nmodule pm" + id + " {\nfunc gx() { return x }\nfunc gy() { return y }\n}\nreturn pm" + id + "\n}\nfunc tr" + id + "(n) {\nif n == 0 { return pt" + id + "(1, 2) }\nl" + id + ", r" + id + " = tr" + id + "(n - 1), tr" + id + "(n - 1)\nreturn l" + id + "\n}\nh(" + id + ")\npo" + id + " = tr" + id + "(2)\npt" + id + "(3, 4).gy()"
	// the zero element of a slice of modules used as the first element of a TYPE path
	case 136:
		return "module my" + id + " { make(type T, 1) }\nmake(type EY" + id + ", my" + id + ")\nay" + id + " = make([]EY" + id + ", 1)\nxy" + id + " = ay" + id + "[0]\ntry { ty" + id + " = make(xy" + id + ".T) } catch { }\ntry { uy" + id + " = make(xy" + id + ".q.T) } catch { }\ntry { vy" + id + " = make([]xy" + id + ".T) } catch { }\nmodule mw" + id + " { inner = 0 }\ntry { mw" + id + ".inner = xy" + id + " } catch { }\ntry { wy" + id + " = make(mw" + id + ".inner.T) } catch { }\ntry { zy" + id + " = make(mw" + id + ".inner.q.T) } catch { }\nh(" + id + ")\nmake(xy" + id + ".T)"
	// a variable whose address is taken (and which is read) by goroutines while the scope that holds it deletes and
	// defines it again: scopes are safe to share, whatever taking an address does to a binding
	case 137:
		un := ""
		for k := 2; k < 8; k++ {
			un += "delete(\"av" + id + "\")\nav" + id + " = " + strconv.Itoa(k) + "\n"
		}
		return "av" + id + " = 1\nad" + id + " = make(chan int64, 2)\ngo func() {\nfor ai" + id + " = 0; ai" + id + " < 8; ai" + id + "++ { try { ap" + id + " = &av" + id + " } catch { } }\nad" + id + " <- 1\n}()\ngo func() {\nfor aj" + id + " = 0; aj" + id + " < 8; aj" + id + "++ { try { aq" + id + " = av" + id + " + 1 } catch { } }\nad" + id + " <- 1\n}()\n" + un + "h(" + id + ")\n<-ad" + id + "\n<-ad" + id
	case 138:
		// the same through a pointer that is used: written through and read back while the variable is rebound
		un := ""
		for k := 2; k < 6; k++ {
			un += "bv" + id + " = \"s" + strconv.Itoa(k) + "\"\ndelete(\"bv" + id + "\")\nbv" + id + " = " + strconv.Itoa(k) + "\n"
		}
		return "bv" + id + " = 1\nbd" + id + " = make(chan int64, 1)\ngo func() {\nfor bi" + id + " = 0; bi" + id + " < 8; bi" + id + "++ { try { bp" + id + " = &bv" + id + "; *bp" + id + " = bi" + id + "; bq" + id + " = *bp" + id + " } catch { } }\nbd" + id + " <- 1\n}()\n" + un + "h(" + id + ")\n<-bd" + id
	// strings that are longer in bytes than in characters, indexed and sliced with explicit and omitted bounds
	case 139:
		return "us" + id + " = \"" + strings.Repeat("é", 40) + "\"\nut" + id + " = \"" + strings.Repeat("日本語", 12) + "\"\nuu" + id + " = \"na\u00efve caf\u00e9, \" * 4\ntry { ua" + id + " = us" + id + "[5:] } catch { }\ntry { ub" + id + " = uu" + id + "[:10] + \"...\" + uu" + id + "[40:] } catch { }\ntry { uc" + id + " = len(ut" + id + "[1:]) } catch { }\ntry { ud" + id + " = us" + id + "[63:] } catch { }\ntry { for ue" + id + " in ut" + id + " { } } catch { }\ntry { uf" + id + " = ut" + id + "[35] } catch { }\ntry { ug" + id + " = us" + id + "[2:79] } catch { }\nh(" + id + ")\nuh" + id + " = ut" + id + "[3:]\nui" + id + " = us" + id + "[:41]"
	// values a script gets hold of without any host binding whose Go type has unexported fields (the control-flow
	// signals a catch block sees, the type value make(type ..) evaluates to): a member that scripts cannot have
	case 140:
		return "try { break } catch ee" + id + " { try { xa" + id + " = ee" + id + ".s } catch { } }\nfunc xf" + id + "() { try { return 1 } catch ef" + id + " { return ef" + id + ".s } }\ntry { xb" + id + " = [xf" + id + "()] } catch { }\nxt" + id + " = make(type XT" + id + ", 1)\ntry { xc" + id + " = xt" + id + ".t } catch { }\nh(" + id + ")\ntry { continue } catch eg" + id + " { xd" + id + " = {\"k\": eg" + id + ".s} }"
	// a member of a nil value whose static type is an interface with methods
	case 141:
		return "yt" + id + " = make(type YT" + id + ", 1)\nym" + id + " = yt" + id + ".MethodByName(\"nosuch\")\ntry { ya" + id + " = ym" + id + "[0].Type.Name } catch { }\ntry { yb" + id + " = ym" + id + "[0].Type.String() } catch { }\nh(" + id + ")\nyc" + id + " = ym" + id + "[0].Type.Kind"
	// type expressions reflect refuses for reasons of its own: a field name used twice, an element too large for a channel
	case 142:
		return "try { da" + id + " = make(struct { A int64, A string }) } catch { }\ntry { make(type DT" + id + ", make(struct { Name string, Name string })) } catch { }\ntry { db" + id + " = []struct { A int64, A int64 }{} } catch { }\ntry { dc" + id + " = make(map[string]struct { B int64, B int64 }) } catch { }\nh(" + id + ")\nmake(struct { C int64, C int64 })"
	case 143:
		return "make(type SA" + id + ", make(struct { A int64, B int64, C int64, D int64, E int64, F int64, G int64, H int64, I int64, J int64 }))\nmake(type SB" + id + ", make(struct { A SA" + id + ", B SA" + id + ", C SA" + id + ", D SA" + id + ", E SA" + id + ", F SA" + id + ", G SA" + id + ", H SA" + id + ", I SA" + id + ", J SA" + id + " }))\nmake(type SC" + id + ", make(struct { A SB" + id + ", B SB" + id + ", C SB" + id + ", D SB" + id + ", E SB" + id + ", F SB" + id + ", G SB" + id + ", H SB" + id + ", I SB" + id + ", J SB" + id + " }))\nmake(type SD" + id + ", make(struct { A SC" + id + ", B SC" + id + ", C SC" + id + ", D SC" + id + ", E SC" + id + ", F SC" + id + ", G SC" + id + ", H SC" + id + ", I SC" + id + ", J SC" + id + " }))\ntry { sc" + id + " = make(chan SD" + id + ") } catch { }\nh(" + id + ")\nmake(chan SD" + id + ", 1)"
	// one list value spread over several names, the list being empty
	case 144:
		return "ea" + id + ", eb" + id + " = []\nvar ec" + id + ", ed" + id + " = make([]string)\nfunc ef" + id + "(xs) { return xs }\neg" + id + ", eh" + id + " = ef" + id + "([])\nh(" + id + ")\nei" + id + ", ej" + id + ", ek" + id + " = hid([])"
	// a member assignment into a map whose key type is not string
	case 145:
		return "mk" + id + " = make(map[int64]string)\ntry { mk" + id + ".a = \"x\" } catch { }\nml" + id + " = make([]map[int64]string, 1)\ntry { ml" + id + "[0].k = \"v\" } catch { }\nmm" + id + " = make(map[bool]int64)\ntry { mm" + id + ".t = 1 } catch { }\nh(" + id + ")\nmk" + id + ".b = \"y\""
	default:
		return "x" + id + " = hid(1) & hid(\"z\")\ny" + id + " = hid(1.5) | hid(nil)\nz" + id + " = hid({}) ^ 1\nw" + id + " = hid([1, 2]) + hid({\"a\": 1})\nv" + id + " = hid(nil) < hid([1])\nu" + id + " = hid(func() { }) == hid(func() { })"
	}
}

func wrapSrc(w int, body, id string) string {
	switch w % nWraps {
	case 1:
		return "try {\n" + body + "\n} catch e" + id + " { h(9" + id + ") }"
	case 2:
		return "try {\n" + body + "\n} catch e" + id + " { } finally { h(9" + id + ") }"
	case 3:
		return "for i" + id + " = 0; i" + id + " < 2; i" + id + "++ {\n" + body + "\n}"
	case 4:
		return "module M" + id + " {\nfunc f() {\n" + body + "\n}\n}\nM" + id + ".f()"
	case 5:
		return "if true {\n" + body + "\n}"
	case 6:
		return "try { throw \"t\" } catch e" + id + " {\n" + body + "\n}"
	}
	return body
}

func Render(w *Work) string {
	var parts []string
	for i, s := range w.Sites {
		id := strconv.Itoa(i + 1)
		parts = append(parts, wrapSrc(s.Wrap, siteSrc(s.K, id), id))
	}
	if w.Cut > 0 {
		// a truncated program also carries every kind of token, so that the cut can fall inside each of them
		parts = append([]string{tokenZoo}, parts...)
	}
	s := strings.Join(parts, "\n") + "\n"
	if w.Cut > 0 && w.Cut < len(s) {
		s = s[:w.Cut]
	}
	return s
}

const tokenZoo = "lx = [\"caf\\u00e9 \\U0001F600 \\x41\\101 \u00e9\\t\\\"q\\\" \\\\\", `raw\\n`, 'x\\ty', 0x1F, 1e9, 1.5e-3, 0b101, \"\u65e5\u672c\u8a9e\"] # c\nly = /* c */ 1 // c\nlz = lx[0] + lx[1] ?? ly"

var faultKinds = []string{"panic-string", "panic-error", "panic-value", "runtime-error", "error-result", "nil-func", "close-chan", "cancel", "panic-typed-nil-error", "panic-nil", "panic-unhashable-error", "panic-unhashable-value"}

// nilErr is an error type whose Error method dereferences the receiver: a
// typed nil of it is a non-nil error value whose Error() panics.
type nilErr struct{ msg string }

func (e *nilErr) Error() string { return e.msg }

// Unwrap and Is dereference the receiver too: whoever inspects the error chain of a typed nil trips over it.
func (e *nilErr) Unwrap() error        { return errors.New(e.msg) }
func (e *nilErr) Is(target error) bool { return e.msg == target.Error() }

// errList is an error of slice kind, like go/scanner.ErrorList: not hashable, not comparable.
type errList []string

func (e errList) Error() string { return strings.Join(e, "; ") }

type Prop struct{}

func init() { harness.Register(Prop{}) }

func (Prop) ID() string { return "C01" }

func (Prop) Gen(seed int64, tier string) *harness.Case {
	r := harness.Rand(seed)
	var w Work
	n := 1 + r.Intn(6)
	if tier == "thorough" && r.Intn(3) == 0 {
		n = 6 + r.Intn(10)
	}
	for i := 0; i < n; i++ {
		s := Site{K: r.Intn(nSites)}
		if r.Intn(2) == 0 {
			s.Wrap = r.Intn(nWraps)
		}
		w.Sites = append(w.Sites, s)
	}
	if r.Intn(3) == 0 {
		w.CtxMode = 1 + r.Intn(2)
	}
	if r.Intn(5) == 0 {
		// the program arrives cut off at an arbitrary byte (inside a token, a string, a block ...)
		probe := w
		probe.Cut = 1 << 30
		if full := len(Render(&probe)); full > 1 {
			w.Cut = 1 + r.Intn(full-1)
		}
	}
	var evs []harness.EventSpec
	nf := 1 + r.Intn(3)
	for i := 0; i < nf; i++ {
		evs = append(evs, harness.EventSpec{Kind: faultKinds[r.Intn(len(faultKinds))], Arg: 1 + r.Intn(2*n+2)})
	}
	wb, _ := json.Marshal(w)
	density := []int{0, 10, 40}[r.Intn(3)]
	return &harness.Case{Prop: "C01", Seed: seed, Tier: tier, Workload: wb, Events: evs,
		Knobs: map[string]int{"sites": n, "density": density}, Choices: harness.GenChoices(r, 300, density), Source: Render(&w)}
}

// Unx has an unexported field; Celsius is a named numeric type.
type Unx struct {
	hidden int
	Open   int
}

type Celsius float64

// Iface is an interface with a method; a typed nil *T stored in it is non-nil as an interface.
type Iface interface{ M(int64) int64 }

// libFiles are written once per process: scripts that `load` them start goroutines and deferred calls
// whose Go callees panic.
var libFiles = func() [2]string {
	// inside the worker's working directory (the driver's scratch directory, removed after the check)
	dir, err := filepath.Abs(fmt.Sprintf("c01lib-%d", os.Getpid()))
	if err == nil {
		err = os.MkdirAll(dir, 0o755)
	}
	if err != nil {
		return [2]string{"/nonexistent-a", "/nonexistent-b"}
	}
	a, b := filepath.Join(dir, "lib_a.ank"), filepath.Join(dir, "lib_b.ank")
	os.WriteFile(a, []byte("go keys(5)\ngo h(1)\nfunc libspawn() { go keys(7); go range(); defer keys(nil) }\nlibspawn()\n"), 0o644)
	os.WriteFile(b, []byte("func(x) { go keys(x); go hv([x, 2]...); return h(x) }\n"), 0o644)
	os.WriteFile(filepath.Join(dir, "lib_c.ank"), []byte("libc = 1\nfor i = 0; i < 1; i++ { }\n"), 0o644)
	os.WriteFile(filepath.Join(dir, "lib_d.ank"), []byte(""), 0o644)
	return [2]string{a, b}
}()

// T is the Go struct bound into the environment.
type T struct {
	hook func(string) interface{}
	F    func(int64) int64 // a func-typed field
	N    func()            // a nil func-typed field
}

func (t *T) M(id int64) int64 { t.hook("M"); return id }
func (t *T) Z() int64         { t.hook("Z"); return 0 }
func (t T) V(id int64) int64  { t.hook("V"); return id }

func (Prop) Run(t *testing.T, c *harness.Case, verbose bool) *harness.Result {
	var w Work
	res := &harness.Result{Counters: map[string]int{}}
	if err := json.Unmarshal(c.Workload, &w); err != nil {
		res.Inconclusive = "bad workload"
		return res
	}
	src := Render(&w)
	faults := map[int]string{}
	for _, ev := range c.Events {
		faults[ev.Arg] = ev.Kind
	}
	var sim *simrt.Sim
	var mu sync.Mutex
	calls := 0
	fired := map[string]int{}
	var mainErr error
	mainDone := false
	hostPanic := ""
	var later []func() // callbacks the host was handed and calls after the run
	leaked := harness.Bubble(t, func() {
		sim = simrt.New(c.Choices, 4000)
		ctx := sim.NewCtx()
		// fault is called at the entry of every host function; it returns the
		// kind that fired (for the kinds a specific host function acts on)
		fault := func(name string) string {
			simrt.Yield("host")
			mu.Lock()
			calls++
			k := faults[calls]
			n := calls
			if k != "" {
				fired[k]++
			}
			mu.Unlock()
			switch k {
			case "panic-string":
				panic("boom" + strconv.Itoa(n))
			case "panic-error":
				panic(errors.New("errboom" + strconv.Itoa(n)))
			case "panic-value":
				panic(1000 + n)
			case "runtime-error":
				var mm map[string]int
				mm["x"] = 1
			case "cancel":
				ctx.Cancel()
			case "panic-typed-nil-error":
				var err error = (*nilErr)(nil)
				panic(err)
			case "panic-nil":
				panic(nil)
			case "panic-unhashable-error":
				// an error whose dynamic type cannot be a map key or be compared (a list of messages)
				panic(errList{"first" + strconv.Itoa(n), "second"})
			case "panic-unhashable-value":
				panic(map[string]int{"boom": n})
			}
			return k
		}
		e := env.NewEnv()
		core.Import(e)
		e.Define("libpath", libFiles[0])
		e.Define("libpath2", libFiles[1])
		e.Define("libpath3", filepath.Join(filepath.Dir(libFiles[0]), "lib_c.ank"))
		e.Define("libpath4", filepath.Join(filepath.Dir(libFiles[0]), "lib_d.ank"))
		e.Define("hlater", func(f func()) {
			fault("hlater")
			mu.Lock()
			later = append(later, f)
			mu.Unlock()
		})
		e.Define("h", func(id int64) int64 { fault("h"); return id })
		e.Define("hid", func(x interface{}) interface{} { fault("hid"); return x })
		e.Define("hv", func(xs ...int64) int64 { fault("hv"); return int64(len(xs)) })
		e.Define("h2", func(a, b int64) int64 { fault("h2"); return a + b })
		e.Define("h3", func(a, b, c interface{}) interface{} { fault("h3"); return a })
		e.Define("hE", func(id int64) (int64, error) {
			if fault("hE") == "error-result" {
				return 0, errors.New("host error result")
			}
			return id, nil
		})
		e.Define("hf", func() func() int64 {
			if fault("hf") == "nil-func" {
				return nil
			}
			return func() int64 { fault("hf-result"); return 1 }
		})
		e.Define("hch", func(ch chan int64) {
			if fault("hch") == "close-chan" {
				close(ch)
			}
		})
		e.Define("hp", func(args ...interface{}) { fault("hp") })
		e.Define("hpe", func(args ...interface{}) (int, error) { fault("hpe"); return len(args), nil })
		e.Define("hpf", func(format string, args ...interface{}) (int, error) { fault("hpf"); return len(args), nil })
		e.Define("hs", func(s string) string { fault("hs"); return s })
		e.Define("hnilv", func() interface{} { fault("hnilv"); return nil })
		e.Define("hnm", func() map[string]int64 { fault("hnm"); return nil })
		e.Define("hnsp", func() *[]int64 { fault("hnsp"); return nil })
		e.Define("hnc", func() chan int64 { fault("hnc"); return nil })
		e.Define("huncmp", func() interface{} { fault("huncmp"); return struct{ S []int }{[]int{1}} })
		e.Define("hz", func() int64 { fault("hz"); return 0 })
		e.Define("hptr", func(p *int64) { fault("hptr"); *p = 5 })
		e.Define("call", func(f func()) { fault("call"); f() })
		e.Define("callr", func(f func(int64) int64) int64 { fault("callr"); return f(1) + 1 })
		obj := &T{}
		obj.hook = func(n string) interface{} { return fault(n) }
		// the property's environments bind values a script could construct itself, or Go functions over
		// such values: the struct is not bound, its method values and its func-typed field are
		e.Define("objM", obj.M)
		e.Define("objV", obj.V)
		e.Define("objZ", obj.Z)
		e.Define("nilM", (*T)(nil).M)
		e.Define("stF", (&T{F: func(id int64) int64 { fault("st.F"); return id }}).F)
		sim.Events = append(sim.Events, &simrt.Event{AtQuiescence: true, Name: "cleanup-cancel", Do: func(s *simrt.Sim) { ctx.Cancel() }})
		sim.Spawn("main", func() {
			defer func() {
				if x := recover(); x != nil {
					hostPanic = fmt.Sprint(x)
				}
			}()
			switch w.CtxMode {
			case 1:
				_, mainErr = vm.ExecuteContext(context.Background(), e, &vm.Options{Debug: false}, src)
			case 2:
				_, mainErr = vm.Execute(e, &vm.Options{Debug: false}, src)
			default:
				_, mainErr = vm.ExecuteContext(ctx, e, &vm.Options{Debug: false}, src)
			}
			mainDone = true
			// the host releases the run's context (defer cancel()) and, later, calls the callbacks it kept:
			// functions that cannot fail by themselves must not panic on it
			ctx.Cancel()
			mu.Lock()
			cbs := later
			mu.Unlock()
			for _, f := range cbs {
				f()
			}
		})
		res.Outcome = sim.Run()
		sim.Teardown(func() { ctx.Cancel() })
	})
	res.Leaked = leaked
	res.Steps, res.Switches, res.Contended = sim.Step, sim.Switches, sim.Contended
	res.Tasks = len(sim.Tasks())
	res.LogHash = fmt.Sprintf("%016x", sim.LogHash())
	for k, v := range sim.Counters {
		res.Counters[k] = v
	}
	nf := 0
	for k, v := range fired {
		res.Counters["fault_fired_"+k] = v
		nf += v
	}
	res.Counters["host_calls"] = calls
	res.Shape = harness.HashStrings(string(c.Workload), fmt.Sprint(c.Events), res.LogHash)
	res.Nontrivial = nf > 0
	if res.Tasks > 1 && nf > 0 {
		res.Counters["fault_with_script_goroutines"]++
	}
	if mainErr != nil {
		res.Counters["main_returned_error"]++
	}
	if verbose {
		res.Log = append(res.Log, "source:\n"+src)
		for _, e := range sim.Log {
			res.Log = append(res.Log, fmt.Sprintf("%d %s %s", e.Step, e.Task, e.Kind))
		}
		res.Log = append(res.Log, fmt.Sprintf("main done=%v err=%v fired=%v", mainDone, mainErr, fired))
	}
	sites := []string{}
	for _, s := range w.Sites {
		sites = append(sites, strconv.Itoa(s.K%nSites))
	}
	sig := "sites=" + strings.Join(sites, ",")
	res.Counters[fmt.Sprintf("ctx_mode_%d", w.CtxMode)]++
	if w.Cut > 0 {
		res.Counters["input_perturbation_truncated_source"]++
	}
	fail := func(class, detail string) *harness.Result {
		res.Violation = class
		res.Detail = fmt.Sprintf("%s\nfaults (k-th host call -> kind): %v, fired: %v\n%s", detail, faults, fired, src)
		res.Signature = class + " " + sig
		return res
	}
	if hostPanic != "" {
		return fail("panic-reached-host", "a panic unwound out of vm.ExecuteContext into the calling goroutine: "+hostPanic)
	}
	for _, v := range sim.Viol {
		if v.Class == "escaped-panic" {
			return fail("goroutine-panic", v.Detail+" (on a bare goroutine this terminates the host process)")
		}
		return fail(v.Class, v.Detail)
	}
	if res.Outcome != "done" {
		res.Counters["not_finished_after_cleanup_cancel"]++
	} else if !mainDone {
		return fail("main-lost", "ExecuteContext neither returned nor panicked although every task finished")
	}
	return res
}

func (Prop) Shrink(c *harness.Case) []*harness.Case {
	var w Work
	if json.Unmarshal(c.Workload, &w) != nil {
		return nil
	}
	var out []*harness.Case
	emit := func(nw Work, evs []harness.EventSpec) {
		d := c.Clone()
		d.Workload, _ = json.Marshal(nw)
		d.Events = evs
		d.Source = Render(&nw)
		out = append(out, d)
	}
	for i := range w.Sites {
		nw := Work{Sites: append(append([]Site{}, w.Sites[:i]...), w.Sites[i+1:]...), CtxMode: w.CtxMode, Cut: w.Cut}
		if len(nw.Sites) > 0 {
			if w.Cut > 0 {
				// keep the cut at the same place of the text when a site in front of it goes away
				full, rest := Work{Sites: w.Sites, Cut: 1 << 30}, Work{Sites: nw.Sites, Cut: 1 << 30}
				if d := len(Render(&full)) - len(Render(&rest)); i < len(w.Sites)-1 && w.Cut > d {
					alt := nw
					alt.Cut = w.Cut - d
					emit(alt, c.Events)
				}
			}
			emit(nw, c.Events)
		}
	}
	for i := range c.Events {
		evs := append(append([]harness.EventSpec{}, c.Events[:i]...), c.Events[i+1:]...)
		emit(w, evs)
	}
	for i, s := range w.Sites {
		if s.Wrap != 0 {
			nw := Work{Sites: append([]Site{}, w.Sites...), CtxMode: w.CtxMode, Cut: w.Cut}
			nw.Sites[i].Wrap = 0
			emit(nw, c.Events)
		}
	}
	if w.CtxMode != 0 {
		nw := Work{Sites: w.Sites, Cut: w.Cut}
		emit(nw, c.Events)
	}
	if w.Cut > 0 {
		emit(Work{Sites: w.Sites, CtxMode: w.CtxMode}, c.Events)
		if w.Cut > 1 {
			emit(Work{Sites: w.Sites, CtxMode: w.CtxMode, Cut: w.Cut - 1}, c.Events)
		}
	}
	for i, ev := range c.Events {
		if ev.Arg > 1 {
			evs := append([]harness.EventSpec{}, c.Events...)
			evs[i].Arg = ev.Arg - 1
			emit(w, evs)
		}
		if ev.Kind != "panic-string" && ev.Kind != "nil-func" && ev.Kind != "close-chan" && ev.Kind != "panic-typed-nil-error" && !strings.HasPrefix(ev.Kind, "panic-unhashable") {
			evs := append([]harness.EventSpec{}, c.Events...)
			evs[i].Kind = "panic-string"
			emit(w, evs)
		}
	}
	return out
}
