// Package c16: script channels and goroutines deliver every message once, in
// order, whatever the schedule.
//
// Generated pipeline programs (1-3 stages, 1-3 producers, buffered and
// unbuffered channels of typed and interface element types, all four goroutine
// spawn sites, three consumer forms, close at the end through a done-channel
// join, epilogue probes on the closed channel) run with every goroutine as a
// scheduler task. Oracle: the consumer's sequence contains every sent item
// exactly once, each producer's items in send order, each of the channel's
// element type; the run finishes within a step budget (no faults here, so
// progress is owed under every schedule); the epilogue observations match Go
// channel semantics; no panic escapes a goroutine.
package c16

import (
	"context"
	"encoding/json"
	"fmt"
	"reflect"
	"strings"
	"sync"
	"testing"
	"time"

	"github.com/mattn/anko/core"
	"github.com/mattn/anko/env"
	"github.com/mattn/anko/parser"
	"github.com/mattn/anko/vm"

	"verifsim/harness"
	"verifsim/simrt"
)

type Work struct {
	Elem       string `json:"elem"` // int64 | float64 | string | interface
	Items      []int  `json:"items"`
	Bufs       []int  `json:"bufs"`      // one per stage channel
	Spawn      []int  `json:"spawn"`     // spawn-site variant per producer: 0 named, 1 anon, 2 arity>=5, 3 variadic
	FwdForm    []int  `json:"fwd_form"`  // consumer form of each forwarding stage
	ConsForm   int    `json:"cons_form"` // consumer form of the final consumer: 0 for-in, 1 ok-loop, 2 nil-loop
	Sleep      bool   `json:"sleep"`
	Epilogue   bool   `json:"epilogue"`
	FwdSpawn   int    `json:"fwd_spawn"`
	MutateArg  bool   `json:"mutate_arg"`         // parent mutates the variable passed to go right after spawning
	CtxMode    int    `json:"ctx_mode,omitempty"` // 0 simulated cancellable context, 1 context.Background()
	Workers    int    `json:"workers,omitempty"`  // >1: the last channel is drained by a pool of this many goroutines (fan-out)
	WorkForm   int    `json:"work_form,omitempty"`
	ResBuf     int    `json:"res_buf,omitempty"`     // buffer of the pool's result channel (0 = 2)
	AnonSend   bool   `json:"anon_send,omitempty"`   // sends go through an anonymous call site shared by several goroutines
	Nils       bool   `json:"nils,omitempty"`        // interface channels also carry nil items
	ListForm   int    `json:"list_form,omitempty"`   // with ListClose: 0 the joiner indexes the list itself, 1 it gets the list ELEMENTS as parameters and uses the receive statement on them
	ListClose  bool   `json:"list_close,omitempty"`  // the first channel is also kept in a list and closed through the list element
	LocalName  int    `json:"local_name,omitempty"`  // >0: the per-invocation variable of workers / relays has an everyday name (timeout, done, reply ...); the environment also carries the core builtins
	OddShift   int    `json:"odd_shift,omitempty"`   // which odd item comes first
	Odd        bool   `json:"odd,omitempty"`         // ... and items that are legal values but easy to mistake for "nothing": empty lists and maps, a list holding nil, booleans, zero numbers, the empty string
	Scale      int64  `json:"scale,omitempty"`       // numeric items are multiplied by this (negative and large values; 0 = 1)
	CapExpr    int    `json:"cap_expr,omitempty"`    // how buffer sizes are spelled: 0 literal, 1 `1 + 1`-style sum, 2 float literal
	Helper     bool   `json:"helper,omitempty"`      // goroutines are started from inside helper functions that return at once (closures keep the helper's parameters)
	DeferEnd   bool   `json:"defer_end,omitempty"`   // stages signal their end (close / done) from a deferred call
	HostDrain  int    `json:"host_drain,omitempty"`  // 1: the script only starts the pipeline and returns its last channel, the host drains it after the run returned; 2: a second run on the same environment is the consumer
	Prelude    bool   `json:"prelude,omitempty"`     // channels and producer functions are set up by an earlier run on the same environment whose context is cancelled once it has returned
	TakeFirst  int    `json:"take_first,omitempty"`  // >0: the consumer first takes this many items with a for-in it leaves by break, then goes on with its usual loop
	Rebind     bool   `json:"rebind,omitempty"`      // the names of started functions are rebound right after the go statement (the callee is evaluated by the caller, at the go statement)
	Relay      bool   `json:"relay,omitempty"`       // (without a worker pool) one goroutine per item, all started on one parameterless function, moves the items from the last channel to `res`
	TypeAlias  bool   `json:"type_alias,omitempty"`  // channels are made by a helper that names the element type locally (make(type El, sample)); the helper is first called for another element type
	Dispatch   bool   `json:"dispatch,omitempty"`    // (without pool / relays) a for-in over the last channel starts one goroutine per item, passing the loop variable
	Implicit   int    `json:"implicit,omitempty"`    // >0: a last hop written as the implicit relay `dst <- src` (one item of src is forwarded); 2: dst is a chan interface
	StructChan bool   `json:"struct_chan,omitempty"` // the stage channels are the channel fields of struct values made one after the other from one struct type (all unbuffered)
	LateBind   bool   `json:"late_bind,omitempty"`   // a last forwarding goroutine is started from a function scope that is still empty; the channel it writes to is bound there afterwards
	DispForm   int    `json:"disp_form,omitempty"`   // how a dispatching for-in starts its goroutine per item: 0 `go handle(dv)`; 1 a function literal inside an if block, capturing a variable of that block; 2 the same inside an inner loop; 3 a closure called in place
	BadAt      int    `json:"bad_at,omitempty"`      // ConsForm 4 (checked consumer): the stage function fails inside Go for the BadAt-th item it is handed
	Shadow     bool   `json:"shadow,omitempty"`      // outer variables named like the for-in loop variables exist (a for-in variable is a fresh binding per loop)
}

type Prop struct{}

func init() { harness.Register(Prop{}) }

func (Prop) ID() string { return "C16" }

func (Prop) Gen(seed int64, tier string) *harness.Case {
	r := harness.Rand(seed)
	var w Work
	w.Elem = []string{"int64", "float64", "string", "interface"}[r.Intn(4)]
	np := 1 + r.Intn(3)
	for i := 0; i < np; i++ {
		w.Items = append(w.Items, 1+r.Intn(8))
		w.Spawn = append(w.Spawn, r.Intn(nSpawn))
	}
	stages := 1 + r.Intn(3)
	if tier == "thorough" && r.Intn(3) == 0 {
		stages = 3 + r.Intn(3)
		for i := range w.Items {
			w.Items[i] = 4 + r.Intn(20)
		}
	}
	maxN := 0
	for _, n := range w.Items {
		if n > maxN {
			maxN = n
		}
	}
	for i := 0; i < stages; i++ {
		w.Bufs = append(w.Bufs, []int{0, 0, 1, 2, maxN}[r.Intn(5)])
		if i > 0 {
			w.FwdForm = append(w.FwdForm, r.Intn(3))
		}
	}
	w.ConsForm = r.Intn(3)
	if r.Intn(5) == 0 {
		w.ConsForm = 3 // switch-dispatch consumer (only rendered for plain int64 pipelines)
	}
	w.Sleep = r.Intn(5) == 0
	w.Epilogue = r.Intn(2) == 0
	w.FwdSpawn = r.Intn(4)
	w.MutateArg = r.Intn(2) == 0
	if r.Intn(4) == 0 {
		w.CtxMode = 1
	}
	if r.Intn(3) == 0 {
		w.Workers = 2 + r.Intn(3)
		w.WorkForm = r.Intn(3)
	}
	w.AnonSend = r.Intn(3) == 0
	w.Nils = w.Elem == "interface" && r.Intn(2) == 0
	w.Odd = w.Nils && r.Intn(2) == 0
	if w.Odd {
		w.OddShift = r.Intn(8)
	}
	if (w.Elem == "int64" || w.Elem == "float64") && r.Intn(2) == 0 {
		w.Scale = []int64{-1, 1000003, -4099, 70000000001}[r.Intn(4)]
	}
	w.CapExpr = r.Intn(3)
	w.Shadow = r.Intn(2) == 0
	w.Helper = r.Intn(3) == 0
	w.DeferEnd = r.Intn(3) == 0
	if r.Intn(4) == 0 {
		// goroutines started by a run are not tied to that run: they keep the pipeline going after it returned
		w.HostDrain = 1 + r.Intn(2)
		if w.HostDrain == 1 && w.ConsForm == 3 {
			w.ConsForm = r.Intn(3)
		}
	}
	w.Relay = w.Workers <= 1 && r.Intn(5) == 0
	if r.Intn(3) == 0 {
		w.LocalName = 1 + r.Intn(len(localNames))
	}
	w.ListClose = r.Intn(4) == 0
	if w.ListClose {
		w.ListForm = r.Intn(2)
	}
	w.Dispatch = w.Workers <= 1 && !w.Relay && r.Intn(5) == 0
	w.DispForm = r.Intn(4)
	if r.Intn(5) == 0 {
		w.Implicit = 1 + r.Intn(2)
	}
	w.TypeAlias = w.Elem != "interface" && r.Intn(4) == 0
	w.Prelude = r.Intn(5) == 0
	if !w.TypeAlias && r.Intn(6) == 0 {
		w.StructChan = true
		for i := range w.Bufs {
			w.Bufs[i] = 0
		}
	}
	w.LateBind = r.Intn(6) == 0
	w.Rebind = r.Intn(3) == 0
	if r.Intn(4) == 0 {
		w.TakeFirst = 1 + r.Intn(1+maxN)
	}
	if tier == "real" {
		// the real-thread leg wants contention: many items, pools of receivers, no sleeps
		for i := range w.Items {
			w.Items[i] = 10 + r.Intn(70)
		}
		if (w.relays() || w.dispatches()) && r.Intn(2) == 0 {
			// hundreds of goroutines alive at once, each holding one item
			for i := range w.Items {
				w.Items[i] = 100 + r.Intn(80)
			}
		}
		if r.Intn(2) == 0 {
			w.Workers = 2 + r.Intn(3)
			w.WorkForm = r.Intn(3)
		}
		w.Sleep = false
		for i := range w.Bufs {
			w.Bufs[i] = []int{0, 1, 2, 2, 4}[r.Intn(5)]
		}
		if w.Workers > 1 {
			// receivers must find the buffer non-empty: several producers, workers never held back by the join
			w.Bufs[len(w.Bufs)-1] = 2 + r.Intn(3)
			tot := 0
			for _, n := range w.Items {
				tot += n
			}
			w.ResBuf = tot
		}
	}
	if w.ConsForm == 3 && !w.switchConsumer() {
		w.ConsForm = r.Intn(3)
	}
	if w.Nils {
		// nil is a legal item of an interface channel; only the nil-terminated consumer form cannot carry it
		// (applied last: the tier-specific adjustments above draw the forms again)
		for i := range w.FwdForm {
			w.FwdForm[i] %= 2
		}
		w.ConsForm %= 2
		w.WorkForm %= 2
	}
	if !w.Nils && !w.switchConsumer() && w.HostDrain != 1 && r.Intn(6) == 0 {
		// the final consumer hands every received item to a stage function, `stg(<-ch)`, which fails inside Go for
		// one of them: that item's failure is caught, every other item is delivered exactly once
		w.ConsForm = 4
		tot := 0
		for _, n := range w.Items {
			tot += n
		}
		w.BadAt = 1 + r.Intn(tot)
	}
	if w.ConsForm != 4 && !w.Nils && !w.switchConsumer() && w.HostDrain != 1 && r.Intn(8) == 0 {
		w.ConsForm = 5
		w.BadAt = r.Intn(2) // which of the two inner-loop shapes
	}
	wb, _ := json.Marshal(w)
	density := []int{0, 5, 20, 50, 80}[r.Intn(5)]
	total := 0
	for _, n := range w.Items {
		total += n
	}
	nch := total*stages*14 + 400
	cs := harness.GenChoices(r, nch, density)
	// starvation: long stretches in which one task is never preferred
	if r.Intn(3) == 0 {
		at := r.Intn(nch)
		for i := at; i < at+60 && i < nch; i++ {
			cs[i] = 0
		}
	}
	return &harness.Case{Prop: "C16", Seed: seed, Tier: tier, Workload: wb,
		Knobs:   map[string]int{"producers": np, "stages": stages, "density": density, "items": total},
		Choices: cs, Source: Render(&w)}
}

const nSpawn = 11

// defineIsBad binds the fault plan of the checked consumer: isbad(v) is true for the BadAt-th item it is shown,
// and that item is recorded (it is the one the stage fails on: owed to nobody).
func defineIsBad(e *env.Env, w *Work, mu *sync.Mutex, probes map[string]interface{}, yield func()) {
	calls := 0
	e.Define("isbad", func(v interface{}) bool {
		yield()
		mu.Lock()
		defer mu.Unlock()
		if v == nil {
			return false
		}
		calls++
		if calls == w.BadAt {
			probes["bad-item"] = v
			return true
		}
		return false
	})
}

// expectedFromSent: per producer, the values the final consumer must see, derived from the recorded item() calls.
func expectedFromSent(w *Work, probes map[string]interface{}) [][]interface{} {
	stages := len(w.Bufs)
	var out [][]interface{}
	for p := range w.Items {
		sent, _ := probes[fmt.Sprintf("sent%d", p+1)].([]interface{})
		var seq []interface{}
		for _, v := range sent {
			// conversion into the channel's element type at the first send
			if w.Elem == "float64" {
				if n, ok := v.(int64); ok {
					v = float64(n)
				}
			}
			for s := 1; s < stages; s++ {
				if w.Elem != "interface" {
					v = fwdValue(v)
				}
			}
			seq = append(seq, v)
		}
		out = append(out, seq)
	}
	return out
}

// itemValue is what producer id sends as its i-th item (before any channel conversion).
func itemValue(w *Work, id, i int64) interface{} {
	str := fmt.Sprintf("p%d_%d", id, i)
	num := id*100 + i
	switch w.Elem {
	case "string":
		return str
	case "interface":
		if w.Odd && i%3 == 1 {
			switch (id + i/3 + int64(w.OddShift)) % 8 {
			case 0:
				return []interface{}{}
			case 1:
				return map[interface{}]interface{}{}
			case 2:
				return []interface{}{nil}
			case 3:
				return false
			case 4:
				return int64(0)
			case 5:
				return ""
			case 6:
				return float64(0)
			default:
				return true
			}
		}
		if w.Nils && i%3 == 0 {
			return nil
		}
		if i%2 == 0 {
			return num
		}
		return str
	}
	return num * scaleOf(w)
}

// oddTok stands for an item that carries no producer tag and may not be comparable (a list, a map): such items are
// recorded as tokens, counted, and - like nil items - not ordered.
type oddTok struct {
	Kind string
	Len  int
}

func norm(v interface{}) interface{} {
	switch x := v.(type) {
	case []interface{}:
		if len(x) == 1 && x[0] == nil {
			return oddTok{"list-of-nil", 1}
		}
		return oddTok{"list", len(x)}
	case map[interface{}]interface{}:
		return oddTok{"map", len(x)}
	case bool:
		return oddTok{fmt.Sprint("bool-", x), 0}
	case int64:
		if x == 0 {
			return oddTok{"zero-int64", 0}
		}
	case float64:
		if x == 0 {
			return oddTok{"zero-float64", 0}
		}
	case string:
		if x == "" {
			return oddTok{"empty-string", 0}
		}
	}
	return v
}

// untagged: items that cannot be attributed to a producer (nil, odd items) are counted, not ordered.
func untagged(v interface{}) bool {
	if v == nil {
		return true
	}
	_, odd := v.(oddTok)
	return odd
}

// localNames: names a script would naturally give a per-invocation variable. Assigned inside a function they are locals of
// that invocation as long as no enclosing scope binds them - whatever the environment's builtins are called.
var localNames = []string{"timeout", "wait", "reply", "result", "spawn", "tick", "timer", "deadline", "next", "first", "last", "each", "lock", "value", "await", "retry", "pending", "sleep2", "every", "delay"}

func (w *Work) local(def string) string {
	if w.LocalName > 0 && w.LocalName <= len(localNames) {
		return localNames[w.LocalName-1]
	}
	return def
}

// fwdValue is the transformation a forwarding stage applies.
func fwdValue(v interface{}) interface{} {
	switch x := v.(type) {
	case int64:
		return x + 1000
	case float64:
		return x + 1000
	case string:
		return x + "!"
	}
	return v
}

// relays: the per-item relay stage is rendered (never together with a worker pool).
func (w *Work) relays() bool { return w.Relay && w.Workers <= 1 }

// dispatches: the goroutine-per-item stage is rendered.
func (w *Work) dispatches() bool { return w.Dispatch && w.Workers <= 1 && !w.Relay }

// unordered: the order in which items reach the final consumer is not defined.
func (w *Work) unordered() bool { return w.Workers > 1 || w.relays() || w.dispatches() }

// switchConsumer: the final consumer is `switch <-ch { case a, b: ... }` in a counted loop (ConsForm 3).
func (w *Work) switchConsumer() bool {
	return w.ConsForm == 3 && w.Elem == "int64" && !w.Nils && w.Workers <= 1 && w.HostDrain != 1 && !w.Relay && !w.Dispatch && w.Implicit == 0 && !w.LateBind
}

// wantClasses is what the switch consumer must count.
func wantClasses(w *Work) string {
	n := [3]int64{}
	for p, seq := range expected(w) {
		for i := range seq {
			n[(i+p)%3]++
		}
	}
	return fmt.Sprint([]interface{}{n[0], n[1], n[2]})
}

// wantArgs is what producer p must have received as its parameters.
func wantArgs(w *Work, p int) string {
	id, n := int64(p+1), int64(w.Items[p])
	switch w.Spawn[p] % nSpawn {
	case 2:
		return fmt.Sprint([]interface{}{id, int64(12), int64(13), int64(14), n})
	case 3, 7:
		return fmt.Sprint([]interface{}{id, n, int64(9)})
	case 4:
		return fmt.Sprint([]interface{}{id, int64(12), n})
	case 5:
		return fmt.Sprint([]interface{}{id, int64(12), int64(13), n})
	case 6:
		return fmt.Sprint([]interface{}{id, int64(12), int64(13), int64(14), int64(15), n})
	case 8:
		return fmt.Sprint([]interface{}{id, nil, int64(13), n})
	case 9:
		return fmt.Sprint([]interface{}{id, nil, n})
	}
	return fmt.Sprint([]interface{}{id, n})
}

func capExpr(n, style int) string {
	switch style {
	case 1:
		if n >= 1 {
			return fmt.Sprintf("%d + 1", n-1)
		}
	case 2:
		return fmt.Sprintf("%d.0", n)
	}
	return fmt.Sprint(n)
}

func fwdExpr(elem, v string) string {
	if elem == "interface" {
		return v
	}
	return "fwd(" + v + ")" // host function: +1000 for numbers, + "!" for strings
}

// consumerLoop renders one of the three ways to drain a channel; v is the
// variable name (unique per goroutine: an assignment to a name that exists in
// an outer scope would share that variable between goroutines, which is the
// script's bug, not the interpreter's).
func consumerLoop(form int, ch, v, body string) string {
	switch form % 3 {
	case 0:
		return "for " + v + " in " + ch + " {\n" + body + "\n}"
	case 1:
		return "for {\n" + v + ", ok" + v + " = <-" + ch + "\nif !ok" + v + " { break }\n" + body + "\n}"
	default:
		// the parenthesised receive is the receive *expression* (nil on a closed channel);
		// `v = <-ch` without parentheses is the receive statement, which leaves v untouched
		return "for {\n" + v + " = (<-" + ch + ")\nif " + v + " == nil { break }\n" + body + "\n}"
	}
}

// Render builds the pipeline script.
func Render(w *Work) string {
	var b strings.Builder
	stages := len(w.Bufs)
	if w.TypeAlias {
		// the element type is a name bound inside the helper, differently on every call: each call's channel
		// carries that call's element type
		sample := map[string]string{"int64": "1", "float64": "1.5", "string": "\"s\""}[w.Elem]
		decoy := map[string]string{"int64": "\"s\"", "float64": "\"s\"", "string": "1"}[w.Elem]
		b.WriteString("func mkch(sample, n) {\nmake(type El, sample)\nif n > 0 { return make(chan El, n) }\nreturn make(chan El)\n}\n")
		fmt.Fprintf(&b, "decoy = mkch(%s, 1)\n", decoy)
		for i, n := range w.Bufs {
			fmt.Fprintf(&b, "ch%d = mkch(%s, %d)\n", i, sample, n)
		}
	}
	if w.StructChan && !w.TypeAlias {
		// each make of the struct type gives a value with a channel of its own
		for i := range w.Bufs {
			fmt.Fprintf(&b, "sc%d = make(struct { C chan %s, N int64 })\nch%d = sc%d.C\n", i, w.Elem, i, i)
		}
	}
	for i, n := range w.Bufs {
		if w.TypeAlias || w.StructChan {
			break
		}
		if n > 0 {
			fmt.Fprintf(&b, "ch%d = make(chan %s, %s)\n", i, w.Elem, capExpr(n, w.CapExpr))
		} else {
			fmt.Fprintf(&b, "ch%d = make(chan %s)\n", i, w.Elem)
		}
	}
	np := len(w.Items)
	for i := range w.Bufs {
		fmt.Fprintf(&b, "cl%d = false\n", i)
	}
	b.WriteString("clres = false\nclrl = false\n")
	if w.Shadow {
		// only for consumers written as for-in: the other two forms assign, and an assignment to an
		// existing outer name would make the goroutines share that variable by the script's own doing
		for i, f := range w.FwdForm {
			if f%3 == 0 {
				fmt.Fprintf(&b, "v%d = -1\n", i+1)
			}
		}
		if w.Workers > 1 && w.WorkForm%3 == 0 {
			b.WriteString("wv = -1\n")
		}
		if w.ConsForm%3 == 0 {
			b.WriteString("vm = -1\n")
		}
	}
	b.WriteString("dn = make(chan int64)\n")
	sl := ""
	if w.Sleep {
		sl = "sleep(1)\n"
	}
	// The item values are computed by a host function, not by script arithmetic: what `id * 100 + i` or
	// string concatenation evaluate to is other properties' business and must not be able to trip this one.
	// Conversion into the channel's element type stays with the interpreter (item() returns int64 for numeric
	// channels, so a chan float64 still has to convert).
	item := "item(id, i)"
	send := "ch0 <- " + item
	if w.AnonSend {
		// one anonymous-call site evaluated by every producer goroutine
		send = "func(x) { ch0 <- x }(" + item + ")"
	}
	body := "for i = 1; i <= n; i++ {\n" + sl + send + "\n}\ndn <- id\n"
	b.WriteString("func prod(id, n) {\nargs(id, n)\n" + body + "}\n")
	b.WriteString("func prod3(id, a2, n) {\nargs(id, a2, n)\n" + body + "}\n")
	b.WriteString("func prod4(id, a2, a3, n) {\nargs(id, a2, a3, n)\n" + body + "}\n")
	b.WriteString("func prod5(id, a2, a3, a4, n) {\nargs(id, a2, a3, a4, n)\n" + body + "}\n")
	b.WriteString("func prod6(id, a2, a3, a4, a5, n) {\nargs(id, a2, a3, a4, a5, n)\n" + body + "}\n")
	b.WriteString("func prodv(id, rest...) {\nn = rest[0]\nargs(id, rest[0], rest[1])\n" + body + "}\n")
	b.WriteString("func prodw(all...) {\nid = all[0]\nn = all[1]\nargs(id, n, all[2])\n" + body + "}\n")
	b.WriteString("func badprod(id, n) {\nargs(id, -1)\ndn <- id\n}\n")
	if w.Prelude {
		b.WriteString(PreludeMark)
	}
	fmt.Fprintf(&b, "ns = [")
	for i, n := range w.Items {
		if i > 0 {
			b.WriteString(", ")
		}
		fmt.Fprintf(&b, "%d", n)
	}
	b.WriteString("]\n")
	for p := 0; p < np; p++ {
		fmt.Fprintf(&b, "pid = %d\n", p+1)
		switch w.Spawn[p] % nSpawn {
		case 0:
			b.WriteString("go prod(pid, ns[pid - 1])\n")
		case 1:
			b.WriteString("go func(id, n) {\nargs(id, n)\n" + body + "}(pid, ns[pid - 1])\n")
		case 2:
			b.WriteString("go prod5(pid, 12, 13, 14, ns[pid - 1])\n")
		case 3:
			b.WriteString("go prodv(pid, ns[pid - 1], 9)\n")
		case 4:
			b.WriteString("go prod3(pid, 12, ns[pid - 1])\n")
		case 5:
			b.WriteString("go prod4(pid, 12, 13, ns[pid - 1])\n")
		case 6:
			b.WriteString("go prod6(pid, 12, 13, 14, 15, ns[pid - 1])\n")
		case 8:
			b.WriteString("go prod4(pid, nil, 13, ns[pid - 1])\n")
		case 9:
			b.WriteString("go prod3(pid, nil, ns[pid - 1])\n")
		case 10:
			// the callee is a variable that is rebound as soon as the goroutine is started
			b.WriteString("st = prod\ngo st(pid, ns[pid - 1])\nst = badprod\n")
		default:
			b.WriteString("xs = [pid, ns[pid - 1], 9]\ngo prodw(xs...)\n")
			if w.MutateArg {
				// rebinding the variable is invisible to the goroutine; writing INTO the spread slice
				// would be unsynchronised sharing of one container, which is outside the guarantee
				b.WriteString("xs = [77, 0, 9]\n")
			}
		}
		if w.MutateArg {
			b.WriteString("pid = 77\n")
		}
	}
	if w.ListClose && w.ListForm == 1 {
		// ... and whichever way it reaches a function: parameters bound from list elements, used by the receive STATEMENT
		fmt.Fprintf(&b, "chl = [ch0, dn]\ngo func(jc, jd) {\nfor k = 0; k < %d; k++ {\njv, jok = <-jd\nif !jok { break }\n}\nvar je = jd\njw = 0\nif false { jw = <-je }\njq = [make(chan int64, 1)]\njq[0] <- 1\nclose(jq[0])\nfor jz in jq[0] { jw = jz }\ncl0 = true\nclose(jc)\n}(chl[0], chl[1])\n", np)
	} else if w.ListClose {
		// a channel is the same channel wherever the script keeps it
		fmt.Fprintf(&b, "chl = [ch0, dn]\ngo func() {\nfor k = 0; k < %d; k++ { <-chl[1] }\ncl0 = true\nclose(chl[0])\n}()\n", np)
	} else {
		fmt.Fprintf(&b, "go func() {\nfor k = 0; k < %d; k++ { <-dn }\ncl0 = true\nclose(ch0)\n}()\n", np)
	}
	for s := 1; s < stages; s++ {
		in, out := fmt.Sprintf("ch%d", s-1), fmt.Sprintf("ch%d", s)
		v := fmt.Sprintf("v%d", s)
		loop := consumerLoop(w.FwdForm[s-1], in, v, out+" <- "+fwdExpr(w.Elem, v))
		ploop := consumerLoop(w.FwdForm[s-1], "pin", v, "pout <- "+fwdExpr(w.Elem, v))
		tail := fmt.Sprintf("exited(\"%s\", cl%d)\ncl%d = true\n", in, s-1, s)
		switch w.FwdSpawn % 4 {
		case 0:
			if w.DeferEnd {
				// the usual idiom: the stage closes its output from a deferred call of the goroutine literal
				fmt.Fprintf(&b, "go func(pin, pout) {\ndefer func() { exited(\"%s\", cl%d); cl%d = true; close(pout) }()\n%s\n}(%s, %s)\n", in, s-1, s, ploop, in, out)
			} else {
				fmt.Fprintf(&b, "go func() {\n%s\n%sclose(%s)\n}()\n", loop, tail, out)
			}
		case 1:
			fmt.Fprintf(&b, "func fwd%d(pin, b, c, d, pout) {\n%s\n%sclose(pout)\n}\ngo fwd%d(%s, 2, 3, 4, %s)\n", s, ploop, tail, s, in, out)
		case 2:
			fmt.Fprintf(&b, "func fwd%d(pin, b, pout) {\n%s\n%sclose(pout)\n}\ngo fwd%d(%s, 2, %s)\n", s, ploop, tail, s, in, out)
		default:
			fmt.Fprintf(&b, "func fwd%d(pin, rest...) {\npout = rest[0]\n%s\n%sclose(pout)\n}\ngo fwd%d(%s, %s)\n", s, ploop, tail, s, in, out)
		}
		if w.Rebind && w.FwdSpawn%4 != 0 {
			fmt.Fprintf(&b, "fwd%d = nil\n", s)
		}
	}
	last := fmt.Sprintf("ch%d", stages-1)
	if w.Workers > 1 {
		// fan-out: a pool of consumers on one channel, results joined on `res`
		rb := w.ResBuf
		if rb == 0 {
			rb = 2
		}
		fmt.Fprintf(&b, "res = make(chan %s, %d)\nwd = make(chan int64)\n", w.Elem, rb)
		if w.Helper {
			// started from a loop inside a helper that returns immediately: the closures keep src / dst / done alive
			endSig := "done <- 1"
			if w.DeferEnd {
				endSig = ""
			}
			pre := ""
			if w.DeferEnd {
				pre = "defer func() { done <- 1 }()\n"
			}
			fmt.Fprintf(&b, "func startWorkers(src, dst, done, n) {\nfor wk = 0; wk < n; wk++ {\ngo func() {\n%s%s\nexited(\"%s\", cl%d)\n%s\n}()\n}\n}\n",
				pre, consumerLoop(w.WorkForm, "src", w.local("wv"), map[bool]string{false: "dst <- " + w.local("wv"), true: "func(x) { dst <- x }(" + w.local("wv") + ")"}[w.AnonSend]), last, stages-1, endSig)
			fmt.Fprintf(&b, "startWorkers(%s, res, wd, %d)\n", last, w.Workers)
		} else {
			fmt.Fprintf(&b, "func worker(k) {\n%s\nexited(\"%s\", cl%d)\nwd <- k\n}\n", consumerLoop(w.WorkForm, last, w.local("wv"), map[bool]string{false: "res <- " + w.local("wv"), true: "func(x) { res <- x }(" + w.local("wv") + ")"}[w.AnonSend]), last, stages-1)
			fmt.Fprintf(&b, "for wk = 0; wk < %d; wk++ { go worker(wk) }\n", w.Workers)
		}
		fmt.Fprintf(&b, "go func() {\nfor k = 0; k < %d; k++ { <-wd }\nclres = true\nclose(res)\n}()\n", w.Workers)
		last = "res"
	} else if w.relays() {
		// one goroutine per item, every one an invocation of the same parameterless function whose only
		// binding is made by a receive statement: each invocation has its own `rv`
		tot := 0
		for _, n := range w.Items {
			tot += n
		}
		fmt.Fprintf(&b, "res = make(chan %s, 2)\nwd = make(chan int64)\n", w.Elem)
		fmt.Fprintf(&b, "func relay() {\n%s = <-%s\nres <- %s\nwd <- 1\n}\n", w.local("rv"), last, w.local("rv"))
		fmt.Fprintf(&b, "for wk = 0; wk < %d; wk++ { go relay() }\n", tot)
		fmt.Fprintf(&b, "go func() {\nfor k = 0; k < %d; k++ { <-wd }\nclres = true\nclose(res)\n}()\n", tot)
		last = "res"
	} else if w.dispatches() {
		// a goroutine per item, started from inside the for-in with the loop variable as argument: the argument
		// is evaluated at the go statement, so each goroutine has the item of its own iteration
		tot := 0
		for _, n := range w.Items {
			tot += n
		}
		fmt.Fprintf(&b, "res = make(chan %s, 2)\nwd = make(chan int64)\n", w.Elem)
		b.WriteString("func handle(x) {\nres <- x\nwd <- 1\n}\n")
		start := "go handle(dv)"
		switch w.DispForm % 4 {
		case 1:
			// the literal sits in a block that is entered once per item and captures a variable of THAT block
			start = "\nif true {\nitb = dv\ngo func() {\nres <- itb\nwd <- 1\n}()\n}\n"
		case 2:
			start = "\nfor qb = 0; qb < 1; qb++ {\nitb = dv\ngo func() {\nres <- itb\nwd <- 1\n}()\n}\n"
		case 3:
			start = "\nif true {\nitb = dv\nemb = func() { go func(x) {\nres <- x\nwd <- 1\n}(itb) }\nemb()\n}\n"
		}
		fmt.Fprintf(&b, "go func() {\nfor dv in %s { "+start+" }\nexited(\"%s\", cl%d)\nfor k = 0; k < %d; k++ { <-wd }\nclres = true\nclose(res)\n}()\n", last, last, stages-1, tot)
		last = "res"
	}
	if w.LateBind {
		// the goroutine is started first, from a function scope that holds nothing yet; the channel it forwards
		// into is bound in that scope afterwards, and only then is the goroutine told to go on
		fmt.Fprintf(&b, "lready = make(chan int64)\ncllt = false\nfunc latestage() {\ngo func() {\n<-lready\nfor lv in %s { lloc <- lv }\ncllt = true\nclose(lloc)\n}()\nlloc = make(chan %s, 1)\nlready <- 1\nreturn lloc\n}\nlt = latestage()\n", last, w.Elem)
		last = "lt"
	}
	if w.Implicit > 0 {
		tot := 0
		for _, n := range w.Items {
			tot += n
		}
		el := w.Elem
		if w.Implicit == 2 {
			el = "interface"
		}
		fmt.Fprintf(&b, "rl = make(chan %s, 1)\ngo func() {\nfor k = 0; k < %d; k++ { rl <- %s }\nclrl = true\nclose(rl)\n}()\n", el, tot, last)
		last = "rl"
	}
	if w.HostDrain == 1 {
		// the run ends here, the goroutines go on: the host receives from the returned channel
		b.WriteString(last + "\n")
		return b.String()
	}
	if w.HostDrain == 2 {
		b.WriteString(last + "\n" + SplitMark)
	}
	b.WriteString("out = []\n")
	if w.TakeFirst > 0 && !w.switchConsumer() {
		// leaving a for-in early must leave every other item in the channel
		keep := "\nout += vt"
		if w.Nils {
			keep = ""
		}
		fmt.Fprintf(&b, "tk = 0\nfor vt in %s {\nemit(vt)%s\ntk++\nif tk >= %d { break }\n}\n", last, keep, w.TakeFirst)
	}
	if w.switchConsumer() {
		// the consumer dispatches on the received value: the tag `<-ch` must be evaluated once per message
		var c1, c2 []string
		tot := 0
		for p, seq := range expected(w) {
			for i, v := range seq {
				tot++
				switch (i + p) % 3 {
				case 0:
					c1 = append(c1, fmt.Sprint(v))
				case 1:
					c2 = append(c2, fmt.Sprint(v))
				}
			}
		}
		if len(c1) == 0 {
			c1 = []string{"-7"}
		}
		if len(c2) == 0 {
			c2 = []string{"-8"}
		}
		fmt.Fprintf(&b, "n1 = 0\nn2 = 0\nn3 = 0\nfor kk = 0; kk < %d; kk++ {\nswitch <-%s {\ncase %s:\nn1++\ncase %s:\nn2++\ndefault:\nn3++\n}\n}\nprobe(\"classes\", [n1, n2, n3])\nprobe(\"after-count\", <-%s)\n",
			tot, last, strings.Join(c1, ", "), strings.Join(c2, ", "), last)
	} else if w.ConsForm == 5 && !w.Nils {
		// a for-in over a channel inside a for-in over a channel, in the same invocation: every item takes a detour
		// through a channel of its own (closed after it, or left by break with a second item still inside)
		fmt.Fprintf(&b, "for vm in %s {\nic = make(chan %s, 2)\nic <- vm\n", last, w.Elem)
		if w.BadAt%2 == 0 {
			b.WriteString("close(ic)\nfor iv in ic {\nemit(iv)\nout += iv\n}\n}\n")
		} else {
			b.WriteString("ic <- vm\nfor iv in ic {\nemit(iv)\nout += iv\nbreak\n}\n}\n")
		}
	} else if w.ConsForm == 4 && !w.Nils {
		// a fault inside a stage: the callee of a direct call fails in Go (a channel of an impossible size), the
		// failure is caught, and the argument expression `<-ch` has been evaluated exactly once all the same
		b.WriteString("func stg(v) {\nif isbad(v) { make(chan int64, 4611686018427387904) }\nreturn v\n}\n")
		b.WriteString("fin = false\nfor !fin {\ntry {\nvm = stg((<-" + last + "))\nif vm == nil { fin = true } else {\nemit(vm)\nout += vm\n}\n} catch se {\nprobe(\"stage-fault\", 1)\n}\n}\n")
	} else if w.Nils {
		b.WriteString(consumerLoop(w.ConsForm, last, "vm", "emit(vm)") + "\n")
	} else {
		b.WriteString(consumerLoop(w.ConsForm, last, "vm", "emit(vm)\nout += vm") + "\n")
	}
	if w.switchConsumer() {
		// count-based loop: nothing to say about "ended before close"
	} else if last == "rl" {
		b.WriteString("exited(\"rl\", clrl)\n")
	} else if last == "lt" {
		b.WriteString("exited(\"lt\", cllt)\n")
	} else if last == "res" {
		b.WriteString("exited(\"res\", clres)\n")
	} else {
		fmt.Fprintf(&b, "exited(\"%s\", cl%d)\n", last, stages-1)
	}
	if w.Epilogue {
		b.WriteString("probe(\"recv-closed\", <-" + last + ")\n")
		b.WriteString("z = 5\nz = <-" + last + "\nprobe(\"recv-stmt\", z)\n")
		b.WriteString("y = 7\ny, ok2 = <-" + last + "\nprobe(\"ok-form\", [y, ok2])\n")
		fmt.Fprintf(&b, "pf = make(chan int64, %s)\npf <- 1\npf <- 2\npf <- 3\nprobe(\"prefill\", len(pf))\n", capExpr(3, w.CapExpr))
		b.WriteString("try {\n" + last + " <- 1\nprobe(\"send-closed\", \"no error\")\n} catch e {\nprobe(\"send-closed\", \"error\")\n}\n")
		b.WriteString("try {\nclose(" + last + ")\nprobe(\"double-close\", \"no error\")\n} catch e {\nprobe(\"double-close\", \"error\")\n}\n")
		// what a typed channel accepts is what a typed slice of the same element type accepts (whatever that is):
		// a value the one refuses is not silently converted by the other
		b.WriteString("cq = []\nfor cvv in [\"12\", true, \"1e3\", 2.5, 7, nil, \"x\"] {\nfor cty in [0, 1, 2] {\nca = \"ok\"\ncb = \"ok\"\n" +
			"try {\nif cty == 0 { cs = make([]int64, 1); cs[0] = cvv } else if cty == 1 { cs = make([]float64, 1); cs[0] = cvv } else { cs = make([]string, 1); cs[0] = cvv }\n} catch { ca = \"err\" }\n" +
			"try {\nif cty == 0 { cc = make(chan int64, 1); cc <- cvv } else if cty == 1 { cc = make(chan float64, 1); cc <- cvv } else { cc = make(chan string, 1); cc <- cvv }\n} catch { cb = \"err\" }\n" +
			"cq += ca == cb\n}\n}\nprobe(\"conv-consistent\", cq)\n")
	}
	b.WriteString("out\n")
	return b.String()
}

// SplitMark separates the two runs of a HostDrain=2 program (both on one environment).
const SplitMark = "# ---- second run, same environment ----\n"

// PreludeMark ends the part a Prelude program runs first, under a context of its own that is cancelled afterwards.
const PreludeMark = "# ---- end of the set-up run (its context is cancelled once it has returned) ----\n"

// runParts executes the program: one run, or several consecutive runs on the same environment.
// run is told whether the part is the set-up run.
func runParts(w *Work, src string, run func(part string, setup bool) (interface{}, error)) (interface{}, error) {
	if w.Prelude {
		parts := strings.SplitN(src, PreludeMark, 2)
		if len(parts) == 2 {
			if _, err := run(parts[0], true); err != nil {
				return nil, err
			}
			src = parts[1]
		}
	}
	if w.HostDrain != 2 {
		return run(src, false)
	}
	parts := strings.SplitN(src, SplitMark, 2)
	if _, err := run(parts[0], false); err != nil {
		return nil, err
	}
	return run(parts[1], false)
}

// hostDrain receives from the channel a HostDrain=1 program returned until it is closed.
func hostDrain(ch interface{}, yield func(), emit func(interface{})) error {
	rv := reflect.ValueOf(ch)
	if !rv.IsValid() || rv.Kind() != reflect.Chan {
		return fmt.Errorf("the script returned %#v, not its last channel", ch)
	}
	for {
		yield()
		v, ok := rv.Recv()
		if !ok {
			return nil
		}
		emit(v.Interface())
	}
}

type item struct {
	prod int
	idx  int
}

// expected returns, per producer, the values the final consumer must see, in order.
func expected(w *Work) [][]interface{} {
	stages := len(w.Bufs)
	var out [][]interface{}
	for p, n := range w.Items {
		id := int64(p + 1)
		var seq []interface{}
		for i := int64(1); i <= int64(n); i++ {
			var v interface{}
			str := fmt.Sprintf("p%d_%d", id, i)
			num := id*100 + i
			switch w.Elem {
			case "string":
				v = str + strings.Repeat("!", stages-1)
			case "interface":
				if w.Nils && i%3 == 0 {
					v = nil
				} else if i%2 == 0 {
					v = num
				} else {
					v = str
				}
			case "float64":
				v = float64(num*scaleOf(w) + int64(1000*(stages-1)))
			default:
				v = num*scaleOf(w) + int64(1000*(stages-1))
			}
			seq = append(seq, v)
		}
		out = append(out, seq)
	}
	return out
}

func scaleOf(w *Work) int64 {
	if w.Scale == 0 || (w.Elem != "int64" && w.Elem != "float64") {
		return 1
	}
	return w.Scale
}

func producerOf(w *Work, v interface{}) int {
	unscale := func(x int64) int {
		x -= int64(1000 * (len(w.Bufs) - 1))
		sc := scaleOf(w)
		if x%sc != 0 {
			return 0
		}
		x /= sc
		if x < 0 {
			return 0
		}
		return int((x % 1000) / 100)
	}
	switch x := v.(type) {
	case int64:
		if w.Elem == "int64" {
			return unscale(x)
		}
		return int((x % 1000) / 100)
	case float64:
		return unscale(int64(x))
	case string:
		var p, i int
		if _, err := fmt.Sscanf(strings.TrimRight(x, "!"), "p%d_%d", &p, &i); err == nil {
			return p
		}
	}
	return 0
}

func (Prop) Run(t *testing.T, c *harness.Case, verbose bool) *harness.Result {
	var w Work
	res := &harness.Result{Counters: map[string]int{}}
	if err := json.Unmarshal(c.Workload, &w); err != nil {
		res.Inconclusive = "bad workload"
		return res
	}
	src := Render(&w)
	_, err := parser.ParseSrc(src)
	if err != nil {
		res.Inconclusive = "generator produced a script that does not parse: " + err.Error() + "\n" + src
		return res
	}
	total := 0
	for _, n := range w.Items {
		total += n
	}
	stages := len(w.Bufs)
	var sim *simrt.Sim
	var mu sync.Mutex
	var got []interface{}
	probes := map[string]interface{}{}
	var mainErr error
	var mainVal interface{}
	var mainDone bool
	var fake time.Duration
	leaked := harness.Bubble(t, func() {
		// A generous step budget: a deadlock is detected as such (no runnable task), so the budget only has to
		// end a livelock. It must never bind on a run that makes progress (fan-out adds a hop, sleeps and
		// starved schedules add steps): 20x what the longest clean run of the thorough tier needed.
		hops := stages + 1
		if w.unordered() {
			hops += 2
		}
		if w.Implicit > 0 {
			hops++
		}
		if w.LateBind {
			hops++
		}
		budget := 1200*(total*hops+len(w.Items)+hops+w.Workers+2) + 8000
		sim = simrt.New(c.Choices, budget)
		ctx := sim.NewCtx()
		e := env.NewEnv()
		if w.LocalName > 0 {
			core.Import(e)
		}
		e.Define("emit", func(v interface{}) {
			simrt.Yield("emit")
			mu.Lock()
			if w.Odd {
				v = norm(v)
			}
			got = append(got, v)
			mu.Unlock()
		})
		e.Define("probe", func(tag string, v interface{}) {
			simrt.Yield("probe")
			mu.Lock()
			probes[tag] = v
			mu.Unlock()
		})
		e.Define("sleep", func(ms int64) { simrt.Sleep(time.Duration(ms) * time.Millisecond) })
		e.Define("item", func(id, i int64) interface{} {
			v := itemValue(&w, id, i)
			mu.Lock()
			k := fmt.Sprintf("sent%d", id)
			lst, _ := probes[k].([]interface{})
			if w.Odd {
				probes[k] = append(lst, norm(v))
			} else {
				probes[k] = append(lst, v)
			}
			mu.Unlock()
			return v
		})
		e.Define("fwd", fwdValue)
		defineIsBad(e, &w, &mu, probes, func() { simrt.Yield("probe") })
		e.Define("args", func(xs ...interface{}) {
			simrt.Yield("probe")
			mu.Lock()
			if id, ok := xs[0].(int64); ok {
				probes[fmt.Sprintf("args%d", id)] = fmt.Sprint(xs)
			} else {
				probes["args?"] = fmt.Sprint(xs)
			}
			mu.Unlock()
		})
		e.Define("exited", func(ch string, closed bool) {
			simrt.Yield("probe")
			if !closed {
				mu.Lock()
				probes["early-exit"] = ch
				mu.Unlock()
			}
		})
		sim.Spawn("main", func() {
			mainVal, mainErr = runParts(&w, src, func(part string, setup bool) (interface{}, error) {
				st, perr := parser.ParseSrc(part)
				if perr != nil {
					return nil, perr
				}
				if setup {
					sctx := sim.NewCtx()
					v, err := vm.RunContext(sctx, e, &vm.Options{Debug: false}, st)
					sctx.Cancel()
					return v, err
				}
				if w.CtxMode == 1 {
					return vm.RunContext(context.Background(), e, &vm.Options{Debug: false}, st)
				}
				return vm.RunContext(ctx, e, &vm.Options{Debug: false}, st)
			})
			if w.HostDrain == 1 && mainErr == nil {
				mainErr = hostDrain(mainVal, func() { simrt.Yield("hostrecv") }, func(v interface{}) {
					mu.Lock()
					got = append(got, v)
					mu.Unlock()
				})
			}
			mainDone = true
		})
		res.Outcome = sim.Run()
		fake = sim.FakeElapsed()
		sim.Teardown(func() { ctx.Cancel() })
	})
	res.Leaked = leaked
	res.Steps, res.Switches, res.Contended = sim.Step, sim.Switches, sim.Contended
	res.Tasks = len(sim.Tasks())
	res.FakeNs = int64(fake)
	res.LogHash = fmt.Sprintf("%016x", sim.LogHash())
	for k, v := range sim.Counters {
		res.Counters[k] = v
	}
	order := fmt.Sprint(got)
	res.Shape = harness.HashStrings(string(c.Workload), order)
	res.Nontrivial = sim.Switches > 0 && res.Tasks > 1
	res.Counters["items_delivered"] = len(got)
	if verbose {
		res.Log = append(res.Log, "source:\n"+src)
		for _, e := range sim.Log {
			res.Log = append(res.Log, fmt.Sprintf("%d %s %s", e.Step, e.Task, e.Kind))
		}
		res.Log = append(res.Log, "delivered: "+order, fmt.Sprintf("main done=%v err=%v val=%v probes=%v", mainDone, mainErr, mainVal, probes))
	}
	for _, v := range sim.Viol {
		res.Violation, res.Detail, res.Signature = v.Class, v.Detail+"\n"+src, v.Class
		return res
	}
	if res.Outcome != "done" {
		res.Violation = "pipeline-stuck"
		res.Detail = fmt.Sprintf("outcome %s after %d steps: the pipeline did not finish (delivered so far: %s)\n%s", res.Outcome, sim.Step, order, src)
		res.Signature = res.Violation
		return res
	}
	if class, detail := judge(&w, got, probes, mainVal, mainErr); class != "" {
		res.Violation, res.Detail, res.Signature = class, detail+"\n"+src, class
		return res
	}
	if w.Epilogue && w.HostDrain != 1 {
		res.Counters["epilogue_checked"]++
	}
	if _, ok := probes["bad-item"]; ok {
		res.Counters["fault_fired_stage_fails_inside_go"]++
	}
	if w.HostDrain != 0 {
		res.Counters[fmt.Sprintf("pipeline_outlives_run_mode%d", w.HostDrain)]++
	}
	return res
}

// judge is the delivery oracle, shared by the simulation and the real-thread leg.
func judge(wp *Work, got []interface{}, probes map[string]interface{}, mainVal interface{}, mainErr error) (string, string) {
	w := *wp
	if w.Odd {
		// whatever path an item took to the record (the script's emit, the host draining the channel itself)
		ng := make([]interface{}, len(got))
		for i, v := range got {
			ng[i] = norm(v)
		}
		got = ng
	}
	order := fmt.Sprint(got)
	type failure struct{ class, detail string }
	var f *failure
	fail := func(class, detail string) *failure { return &failure{class, detail} }
	f = func() *failure {
		if ch, ok := probes["early-exit"]; ok {
			return fail("range-ended-before-close", fmt.Sprintf("a consumer loop over channel %v ended although the channel had not been closed yet (delivered: %s)", ch, order))
		}
		for p := range w.Items {
			want := wantArgs(&w, p)
			if got, _ := probes[fmt.Sprintf("args%d", p+1)].(string); got != want {
				return fail("spawn-args", fmt.Sprintf("producer %d was started with parameters %v, the go statement passed %s (arguments are evaluated by the caller, at the go statement)", p+1, probes[fmt.Sprintf("args%d", p+1)], want))
			}
		}
		if mainErr != nil {
			return fail("script-error", fmt.Sprintf("the pipeline script failed: %v (delivered: %s)", mainErr, order))
		}
		if w.switchConsumer() {
			if got := fmt.Sprint(probes["classes"]); got != wantClasses(&w) {
				return fail("switch-dispatch", fmt.Sprintf("a consumer that dispatches with `switch <-ch { case ... }` counted %s messages per class, the producers sent %s (the tag must be received once per message)", got, wantClasses(&w)))
			}
			if v, ok := probes["after-count"]; !ok || v != nil {
				return fail("closed-recv", fmt.Sprintf("after all messages were counted, a receive on the closed channel yielded %#v", v))
			}
			return nil
		}
		// What must arrive is what the producers were actually given to send (recorded by item()), pushed
		// through the stages' conversion and transformation - not what a model of the script's loops
		// predicts: how many times a loop runs is another property's business.
		exp := expectedFromSent(&w, probes)
		if bad, ok := probes["bad-item"]; ok && w.ConsForm == 4 {
			// the item the stage failed on is owed to nobody; every other item is
			if probes["stage-fault"] == nil {
				return fail("script-error", fmt.Sprintf("the stage function failed inside Go for item %#v and the try around the call did not see an error (delivered: %s)", bad, order))
			}
			done := false
			for p := range exp {
				for i, v := range exp[p] {
					if v == bad && !done {
						exp[p] = append(append([]interface{}{}, exp[p][:i]...), exp[p][i+1:]...)
						done = true
						break
					}
				}
			}
		}
		if w.unordered() {
			// fan-out: order across workers is not defined; every item exactly once, exact type
			want := map[interface{}]int{}
			for _, seq := range exp {
				for _, v := range seq {
					want[v]++
				}
			}
			for _, v := range got {
				if want[v] == 0 {
					if producerOf(&w, v) == 0 {
						return fail("phantom-item", fmt.Sprintf("consumer received %#v which no producer sent (delivered: %s)", v, order))
					}
					return fail("duplicated-item", fmt.Sprintf("item %#v was delivered more than once, or with the wrong element type (delivered: %s)", v, order))
				}
				want[v]--
			}
			for v, n := range want {
				if n != 0 {
					return fail("lost-item", fmt.Sprintf("item %#v was sent but never delivered (delivered: %s)", v, order))
				}
			}
			exp = nil
		}
		next := make([]int, len(exp))
		wantNil, gotNil := 0, 0
		untaggedBalance := map[interface{}]int{}
		for _, seq := range exp {
			for _, v := range seq {
				if untagged(v) {
					wantNil++
					untaggedBalance[v]++
				}
			}
		}
		for _, v := range got {
			if exp == nil {
				break
			}
			if untagged(v) {
				gotNil++
				untaggedBalance[v]--
				continue
			}
			p := producerOf(&w, v)
			if p < 1 || p > len(exp) {
				return fail("phantom-item", fmt.Sprintf("consumer received %#v which no producer sent (delivered: %s)", v, order))
			}
			for next[p-1] < len(exp[p-1]) && untagged(exp[p-1][next[p-1]]) {
				next[p-1]++ // nil items carry no producer tag: they are counted, not ordered
			}
			if next[p-1] >= len(exp[p-1]) {
				return fail("duplicated-item", fmt.Sprintf("consumer received more items from producer %d than were sent: %#v (delivered: %s)", p, v, order))
			}
			want := exp[p-1][next[p-1]]
			if v != want {
				return fail("order-or-conversion", fmt.Sprintf("producer %d: item #%d is %#v, expected %#v (exact value and element type) (delivered: %s)", p, next[p-1]+1, v, want, order))
			}
			next[p-1]++
		}
		for p := range exp {
			for next[p] < len(exp[p]) && untagged(exp[p][next[p]]) {
				next[p]++
			}
			if next[p] != len(exp[p]) {
				return fail("lost-item", fmt.Sprintf("producer %d sent %d items, consumer received %d (delivered: %s)", p+1, len(exp[p]), next[p], order))
			}
		}
		if exp != nil && gotNil != wantNil {
			return fail("lost-item", fmt.Sprintf("%d nil / untagged items (empty lists and maps, booleans, zero values) were sent on the interface channel, %d were delivered (delivered: %s)", wantNil, gotNil, order))
		}
		if exp != nil {
			for v, n := range untaggedBalance {
				if n != 0 {
					return fail("order-or-conversion", fmt.Sprintf("untagged item %#v: sent and delivered counts differ by %d (delivered: %s)", v, n, order))
				}
			}
		}
		// the collected list returned to the host equals what was emitted
		if lst, ok := mainVal.([]interface{}); !w.Nils && w.HostDrain != 1 && (!ok || fmt.Sprint(lst) != order) {
			return fail("result-mismatch", fmt.Sprintf("script returned %#v, emitted %s", mainVal, order))
		}
		if w.Epilogue && w.HostDrain != 1 {
			if v, ok := probes["recv-closed"]; !ok || v != nil {
				return fail("closed-recv", fmt.Sprintf("receive expression on a closed, drained channel yielded %#v, expected nil", v))
			}
			pv, _ := probes["ok-form"].([]interface{})
			if len(pv) != 2 || pv[0] != int64(7) || pv[1] != false {
				return fail("ok-form", fmt.Sprintf("`y = 7; y, ok = <-closed` left [y, ok] = %#v, expected [7, false]", probes["ok-form"]))
			}
			if probes["send-closed"] != "error" {
				return fail("send-closed", fmt.Sprintf("send on a closed channel: %v (expected an error caught by try)", probes["send-closed"]))
			}
			if got := fmt.Sprint(probes["conv-consistent"]); strings.Contains(got, "false") || !strings.Contains(got, "true") {
				return fail("order-or-conversion", fmt.Sprintf("typed channels and typed slices of the same element type disagree on which values they accept (one refuses what the other converts): per (value, type) agreement = %s for values [\"12\", true, \"1e3\", 2.5, 7, nil, \"x\"] x [int64, float64, string]", got))
			}
			if probes["double-close"] != "error" {
				return fail("double-close", fmt.Sprintf("closing a closed channel: %v (expected an error caught by try)", probes["double-close"]))
			}
			if probes["prefill"] != int64(3) {
				return fail("buffer-capacity", fmt.Sprintf("a channel made with capacity 3 held %v items after three sends (expected 3, without blocking)", probes["prefill"]))
			}

		}
		return nil
	}()
	if f != nil {
		return f.class, f.detail
	}
	return "", ""
}

// RunReal executes the pipeline on real goroutines (no scheduler, no overlay)
// and applies the same oracle: the auxiliary leg for "all goroutine schedules
// the runtime produces across repeated runs with varying GOMAXPROCS".
func RunReal(c *harness.Case) (string, string) {
	var w Work
	if json.Unmarshal(c.Workload, &w) != nil {
		return "", ""
	}
	src := Render(&w)
	_, err := parser.ParseSrc(src)
	if err != nil {
		return "", ""
	}
	var mu sync.Mutex
	var got []interface{}
	probes := map[string]interface{}{}
	e := env.NewEnv()
	if w.LocalName > 0 {
		core.Import(e)
	}
	e.Define("emit", func(v interface{}) {
		mu.Lock()
		if w.Odd {
			v = norm(v)
		}
		got = append(got, v)
		mu.Unlock()
	})
	e.Define("probe", func(tag string, v interface{}) { mu.Lock(); probes[tag] = v; mu.Unlock() })
	e.Define("sleep", func(ms int64) { time.Sleep(time.Duration(ms) * time.Microsecond) })
	e.Define("item", func(id, i int64) interface{} {
		v := itemValue(&w, id, i)
		mu.Lock()
		k := fmt.Sprintf("sent%d", id)
		lst, _ := probes[k].([]interface{})
		if w.Odd {
			probes[k] = append(lst, norm(v))
		} else {
			probes[k] = append(lst, v)
		}
		mu.Unlock()
		return v
	})
	e.Define("fwd", fwdValue)
	defineIsBad(e, &w, &mu, probes, func() {})
	e.Define("args", func(xs ...interface{}) {
		mu.Lock()
		if id, ok := xs[0].(int64); ok {
			probes[fmt.Sprintf("args%d", id)] = fmt.Sprint(xs)
		} else {
			probes["args?"] = fmt.Sprint(xs)
		}
		mu.Unlock()
	})
	e.Define("exited", func(ch string, closed bool) {
		if !closed {
			mu.Lock()
			probes["early-exit"] = ch
			mu.Unlock()
		}
	})
	ctx, cancel := context.WithTimeout(context.Background(), 45*time.Second)
	defer cancel()
	val, rerr := runParts(&w, src, func(part string, setup bool) (interface{}, error) {
		st, perr := parser.ParseSrc(part)
		if perr != nil {
			return nil, perr
		}
		if setup {
			sctx, scancel := context.WithCancel(context.Background())
			v, err := vm.RunContext(sctx, e, &vm.Options{Debug: false}, st)
			scancel()
			return v, err
		}
		return vm.RunContext(ctx, e, &vm.Options{Debug: false}, st)
	})
	if w.HostDrain == 1 && rerr == nil {
		drained := make(chan error, 1)
		go func() {
			drained <- hostDrain(val, func() {}, func(v interface{}) { mu.Lock(); got = append(got, v); mu.Unlock() })
		}()
		select {
		case rerr = <-drained:
		case <-ctx.Done():
		}
	}
	if ctx.Err() != nil {
		return "pipeline-stuck", "the pipeline did not finish within 45 s on real goroutines (delivered so far: " + fmt.Sprint(got) + ")\n" + src
	}
	mu.Lock()
	defer mu.Unlock()
	class, detail := judge(&w, got, probes, val, rerr)
	if class != "" {
		detail += "\n" + src
	}
	return class, detail
}

func (Prop) Shrink(c *harness.Case) []*harness.Case {
	var w Work
	if json.Unmarshal(c.Workload, &w) != nil {
		return nil
	}
	var out []*harness.Case
	emit := func(nw Work) {
		d := c.Clone()
		d.Workload, _ = json.Marshal(nw)
		d.Source = Render(&nw)
		out = append(out, d)
	}
	cp := func() Work {
		nw := w
		nw.Items = append([]int{}, w.Items...)
		nw.Bufs = append([]int{}, w.Bufs...)
		nw.Spawn = append([]int{}, w.Spawn...)
		nw.FwdForm = append([]int{}, w.FwdForm...)
		return nw
	}
	if len(w.Items) > 1 {
		nw := cp()
		nw.Items = nw.Items[:len(nw.Items)-1]
		nw.Spawn = nw.Spawn[:len(nw.Spawn)-1]
		emit(nw)
	}
	if len(w.Bufs) > 1 {
		nw := cp()
		nw.Bufs = nw.Bufs[:len(nw.Bufs)-1]
		nw.FwdForm = nw.FwdForm[:len(nw.FwdForm)-1]
		emit(nw)
	}
	for i, n := range w.Items {
		if n > 1 {
			nw := cp()
			nw.Items[i] = n - 1
			emit(nw)
			nw = cp()
			nw.Items[i] = 1
			emit(nw)
		}
	}
	for i, n := range w.Bufs {
		if n > 0 {
			nw := cp()
			nw.Bufs[i] = 0
			emit(nw)
		}
	}
	for i, n := range w.Spawn {
		if n > 0 {
			nw := cp()
			nw.Spawn[i] = 0
			emit(nw)
		}
	}
	if w.Sleep {
		nw := cp()
		nw.Sleep = false
		emit(nw)
	}
	if w.Epilogue {
		nw := cp()
		nw.Epilogue = false
		emit(nw)
	}
	if w.MutateArg {
		nw := cp()
		nw.MutateArg = false
		emit(nw)
	}
	if w.Elem != "int64" {
		nw := cp()
		nw.Elem = "int64"
		emit(nw)
	}
	if w.CtxMode != 0 {
		nw := cp()
		nw.CtxMode = 0
		emit(nw)
	}
	if w.Shadow {
		nw := cp()
		nw.Shadow = false
		emit(nw)
	}
	if w.Helper {
		nw := cp()
		nw.Helper = false
		emit(nw)
	}
	if w.DeferEnd {
		nw := cp()
		nw.DeferEnd = false
		emit(nw)
	}
	if w.Workers > 2 {
		nw := cp()
		nw.Workers--
		emit(nw)
	}
	if w.Workers > 1 {
		nw := cp()
		nw.Workers = 0
		emit(nw)
	}
	if w.Relay {
		nw := cp()
		nw.Relay = false
		emit(nw)
	}
	if w.Dispatch {
		nw := cp()
		nw.Dispatch = false
		emit(nw)
	}
	if w.LateBind {
		nw := cp()
		nw.LateBind = false
		emit(nw)
	}
	if w.StructChan {
		nw := cp()
		nw.StructChan = false
		emit(nw)
	}
	if w.Implicit > 0 {
		nw := cp()
		nw.Implicit = 0
		emit(nw)
	}
	if w.TypeAlias {
		nw := cp()
		nw.TypeAlias = false
		emit(nw)
	}
	if w.ConsForm != 0 {
		nw := cp()
		nw.ConsForm = 0
		emit(nw)
	}
	return out
}
