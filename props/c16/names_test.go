package c16
import ("testing"; "regexp"; "encoding/json")
func TestNames(t *testing.T) {
	re := regexp.MustCompile(`[A-Za-z_][A-Za-z0-9_]*`)
	seen := map[string]bool{}
	for s := int64(0); s < 30000; s++ {
		c := Prop{}.Gen(s, []string{"quick","thorough","race"}[s%3])
		var w Work
		json.Unmarshal(c.Workload, &w)
		if w.LocalName > 0 { continue }
		for _, id := range re.FindAllString(c.Source, -1) { seen[id] = true }
	}
	for _, n := range localNames { if seen[n] { t.Errorf("pool name %q is used by generated scripts", n) } }
}
