// Package c12: the environment API behaves as a chain of dictionaries.
//
// This is the fault-free, single-task configuration of the C13 simulator plus
// one real fault seam: env.ExternalLookup is a stub whose every call succeeds,
// misses or fails as the case's event list dictates. The schedule dimension is
// degenerate (one task, simrt.Solo); the lockset probes stay armed.
//
// Oracle: an independent reference model (parent-linked dictionaries) compared
// after every operation: result, error-or-not, and the full observable state of
// every reachable scope.
package c12

import (
	"encoding/json"
	"fmt"
	"reflect"
	"sort"
	"strconv"
	"strings"
	"testing"

	"github.com/mattn/anko/env"

	"verifsim/harness"
	"verifsim/simrt"
)

type Op struct {
	Kind  string   `json:"k"`
	Scope int      `json:"s"`
	Name  string   `json:"n,omitempty"`
	Val   int      `json:"v,omitempty"`
	Addr  bool     `json:"addr,omitempty"`  // store an addressable value
	Iface int      `json:"iface,omitempty"` // 1: use the interface{} variant of the call; 2: and pass nil; 3 (types): and pass the reflect.Type itself
	Path  []string `json:"path,omitempty"`
	Stub  int      `json:"stub,omitempty"`
}

type StubSpec struct {
	Vals  map[string]int `json:"vals"`
	Addr  bool           `json:"addr"`
	Types map[string]int `json:"types"`
	// Alias: names the lookup resolves by asking the environment for ANOTHER name - through the scope it was last
	// installed on (a host lookup that re-enters the environment it serves, without a cycle)
	Alias map[string]string `json:"alias,omitempty"`
}

type Work struct {
	Ops   []Op       `json:"ops"`
	Stubs []StubSpec `json:"stubs"`
}

var typePool = []reflect.Type{
	nil,
	reflect.TypeOf(int8(0)), reflect.TypeOf(int16(0)), reflect.TypeOf(uint8(0)), reflect.TypeOf(uint16(0)),
	reflect.TypeOf(float32(0)), reflect.TypeOf([]int{}), reflect.TypeOf([]string{}), reflect.TypeOf(map[string]int{}),
	reflect.TypeOf([2]int{}), reflect.TypeOf(struct{ A int }{}), reflect.TypeOf(complex64(0)), reflect.TypeOf([]bool{}),
}

var basic = map[string]reflect.Type{
	"interface": reflect.ValueOf([]interface{}{int64(1)}).Index(0).Type(),
	"bool":      reflect.TypeOf(true), "string": reflect.TypeOf("a"), "int": reflect.TypeOf(int(1)),
	"int32": reflect.TypeOf(int32(1)), "int64": reflect.TypeOf(int64(1)), "uint": reflect.TypeOf(uint(1)),
	"uint32": reflect.TypeOf(uint32(1)), "uint64": reflect.TypeOf(uint64(1)), "byte": reflect.TypeOf(byte(1)),
	"rune": reflect.TypeOf('a'), "float32": reflect.TypeOf(float32(1)), "float64": reflect.TypeOf(float64(1)),
}

func typeName(t reflect.Type) string {
	if t == nil {
		return "<nil>"
	}
	for i, x := range typePool {
		if i > 0 && x == t {
			return "T" + strconv.Itoa(i)
		}
	}
	for k, x := range basic {
		if x == t {
			return "basic:" + k
		}
	}
	return "?" + t.String()
}

// ---------------------------------------------------------------------------
// model

type mval struct {
	id   int
	mod  *mscope
	addr bool
}

type mstub struct {
	spec StubSpec
	ctl  *stubCtl
	home *mscope
}

type stubCtl struct {
	calls     int
	fail      map[int]bool
	observing bool
	fired     int
	hits      int
	misses    int
}

// decide returns whether this (non-observing) call is an injected failure.
func (c *stubCtl) decide() bool {
	if c.observing {
		return false
	}
	c.calls++
	if c.fail[c.calls] {
		c.fired++
		return true
	}
	return false
}

type mscope struct {
	vals   map[string]mval
	types  map[string]string
	parent *mscope
	ext    *mstub
}

func (s *mscope) root() *mscope {
	for s.parent != nil {
		s = s.parent
	}
	return s
}

func (m *mstub) get(name string) (mval, bool) {
	if m.ctl.decide() {
		return mval{}, false
	}
	if tgt, ok := m.spec.Alias[name]; ok && m.home != nil {
		return m.home.get(tgt)
	}
	v, ok := m.spec.Vals[name]
	if !m.ctl.observing {
		if ok {
			m.ctl.hits++
		} else {
			m.ctl.misses++
		}
	}
	return mval{id: v, addr: m.spec.Addr}, ok
}

func (m *mstub) typ(name string) (string, bool) {
	if m.ctl.decide() {
		return "", false
	}
	v, ok := m.spec.Types[name]
	if !m.ctl.observing {
		if ok {
			m.ctl.hits++
		} else {
			m.ctl.misses++
		}
	}
	return "T" + strconv.Itoa(v), ok
}

func (s *mscope) get(name string) (mval, bool) {
	for e := s; e != nil; e = e.parent {
		if v, ok := e.vals[name]; ok {
			return v, true
		}
		if e.ext != nil {
			if v, ok := e.ext.get(name); ok {
				return v, true
			}
		}
	}
	return mval{}, false
}

func (s *mscope) typ(name string) (string, bool) {
	for e := s; e != nil; e = e.parent {
		if v, ok := e.types[name]; ok {
			return v, true
		}
		if e.ext != nil {
			if v, ok := e.ext.typ(name); ok {
				return v, true
			}
		}
		if e.parent == nil {
			if _, ok := basic[name]; ok {
				return "basic:" + name, true
			}
		}
	}
	return "", false
}

func (s *mscope) copy() *mscope {
	c := &mscope{vals: map[string]mval{}, types: map[string]string{}, parent: s.parent, ext: s.ext}
	for k, v := range s.vals {
		c.vals[k] = v
	}
	for k, v := range s.types {
		c.types[k] = v
	}
	return c
}

func (s *mscope) deepCopy() *mscope {
	c := s.copy()
	if c.parent != nil {
		c.parent = c.parent.deepCopy()
	}
	return c
}

// ---------------------------------------------------------------------------
// real stub

type realStub struct {
	spec StubSpec
	ctl  *stubCtl
	home *env.Env
}

func mkVal(id int, addr bool) reflect.Value {
	if addr {
		v := reflect.New(reflect.TypeOf(int(0))).Elem()
		v.SetInt(int64(id))
		return v
	}
	return reflect.ValueOf(id)
}

func (r *realStub) Get(name string) (reflect.Value, error) {
	if r.ctl.decide() {
		return reflect.Value{}, fmt.Errorf("injected external lookup failure")
	}
	if tgt, ok := r.spec.Alias[name]; ok && r.home != nil {
		return r.home.GetValue(tgt)
	}
	if v, ok := r.spec.Vals[name]; ok {
		return mkVal(v, r.spec.Addr), nil
	}
	return reflect.Value{}, fmt.Errorf("external: no value %s", name)
}

func (r *realStub) Type(name string) (reflect.Type, error) {
	if r.ctl.decide() {
		return nil, fmt.Errorf("injected external lookup failure")
	}
	if v, ok := r.spec.Types[name]; ok {
		return typePool[v], nil
	}
	return nil, fmt.Errorf("external: no type %s", name)
}

// ---------------------------------------------------------------------------

type Prop struct{}

func init() { harness.Register(Prop{}) }

func (Prop) ID() string { return "C12" }

var valNames = []string{"a", "b", "m", "n", "x.y", "int64", ".a", "a.", "."}
var tNames = []string{"ta", "tb", "int64", "string", "t.x", ".t"}

func (Prop) Gen(seed int64, tier string) *harness.Case {
	r := harness.Rand(seed)
	var w Work
	nStubs := r.Intn(3)
	for i := 0; i < nStubs; i++ {
		sp := StubSpec{Vals: map[string]int{}, Types: map[string]int{}, Addr: r.Intn(2) == 0}
		for _, n := range valNames[:4] {
			if r.Intn(3) == 0 {
				sp.Vals[n] = 900000 + i*100 + len(sp.Vals)
			}
		}
		sp.Vals["ext"+strconv.Itoa(i)] = 900050 + i
		if r.Intn(2) == 0 {
			// never a cycle: the target is not an alias of any lookup
			sp.Alias = map[string]string{"al" + strconv.Itoa(i): []string{"ext" + strconv.Itoa(i), valNames[0], valNames[1]}[r.Intn(3)]}
		}
		for _, n := range tNames[:3] {
			if r.Intn(3) == 0 {
				sp.Types[n] = 1 + r.Intn(len(typePool)-1)
			}
		}
		w.Stubs = append(w.Stubs, sp)
	}
	nOps := 5 + r.Intn(36)
	if tier == "thorough" && r.Intn(3) == 0 {
		nOps = 40 + r.Intn(60)
	}
	kinds := []string{"NewEnv", "NewModule", "Define", "Define", "DefineGlobal", "Set", "Set", "Get", "Get", "Delete", "DeleteGlobal",
		"DefineType", "DefineGlobalType", "Type", "Type", "ValueSymbols", "TypeSymbols", "Copy", "DeepCopy", "EnvFromPath", "EnvFromPath", "Addr", "String", "Alias", "AddrSet", "AddrSet"}
	if nStubs > 0 {
		kinds = append(kinds, "SetExt", "SetExt")
	}
	// swarm: drop a random third of the kinds
	var ks []string
	for _, k := range kinds {
		if r.Intn(3) != 0 {
			ks = append(ks, k)
		}
	}
	ks = append(ks, "Define", "Get", "NewEnv")
	nScopes := 1
	names := valNames
	if r.Intn(3) == 0 {
		names = valNames[:3]
	}
	for i := 0; i < nOps; i++ {
		op := Op{Kind: ks[r.Intn(len(ks))], Scope: r.Intn(nScopes), Val: 100 + i}
		switch op.Kind {
		case "NewEnv", "Copy", "DeepCopy":
			if nScopes >= 10 {
				op.Kind = "Get"
				op.Name = names[r.Intn(len(names))]
			} else {
				nScopes++
			}
		case "NewModule":
			if nScopes >= 10 {
				op.Kind = "Get"
			} else {
				nScopes++
			}
			op.Name = names[r.Intn(len(names))]
		case "Define", "DefineGlobal", "Set", "Get", "Delete", "DeleteGlobal", "Addr", "AddrSet":
			op.Name = names[r.Intn(len(names))]
			if r.Intn(8) == 0 {
				op.Name = "ext0"
			}
			if op.Kind == "Get" && nStubs > 0 && r.Intn(8) == 0 {
				op.Name = "al" + strconv.Itoa(r.Intn(nStubs))
			}
			op.Addr = r.Intn(2) == 0
			if r.Intn(3) == 0 {
				op.Iface = 1 + r.Intn(2)
			}
		case "DefineType", "DefineGlobalType", "Type":
			op.Name = tNames[r.Intn(len(tNames))]
			op.Val = 1 + r.Intn(len(typePool)-1)
			if r.Intn(3) == 0 {
				op.Iface = 1 + r.Intn(3)
			}
		case "Alias":
			// an existing scope bound as a module under one more name, the way a script's `n, k = [m, 1]` or a
			// host's DefineValue(name, slice.Index(i)) does it: through a value of kind interface (or directly)
			op.Name = names[r.Intn(len(names))]
			op.Val = r.Intn(nScopes)
			op.Iface = r.Intn(3)
			if r.Intn(6) == 0 {
				// ... or no scope at all: a nil *env.Env (the zero element of a slice of modules, an optional namespace
				// that was not loaded) is a value like any other, not a module
				op.Iface = 3
			}
		case "EnvFromPath":
			n := r.Intn(4)
			for j := 0; j < n; j++ {
				op.Path = append(op.Path, names[r.Intn(len(names))])
			}
		case "SetExt":
			op.Stub = r.Intn(nStubs)
			if r.Intn(4) == 0 {
				op.Stub = -1 // detach: SetExternalLookup(nil)
			}
		}
		w.Ops = append(w.Ops, op)
	}
	var evs []harness.EventSpec
	if nStubs > 0 {
		nf := r.Intn(4)
		for i := 0; i < nf; i++ {
			evs = append(evs, harness.EventSpec{Kind: "ext-fail", Arg: 1 + r.Intn(12)})
		}
	}
	wb, _ := json.Marshal(w)
	return &harness.Case{Prop: "C12", Seed: seed, Tier: tier, Workload: wb, Events: evs,
		Knobs: map[string]int{"ops": nOps, "stubs": nStubs}}
}

type pair struct {
	real  *env.Env
	model *mscope
}

type run struct {
	scopes []pair
	mods   map[*env.Env]*mscope
	ctlR   *stubCtl
	ctlM   *stubCtl
	stubsR []*realStub
	stubsM []*mstub
}

func symset(m map[string]struct{}) string {
	var ks []string
	for k := range m {
		ks = append(ks, k)
	}
	sort.Strings(ks)
	return strings.Join(ks, ",")
}

func (r *run) descR(v interface{}, err error) string {
	if err != nil {
		return "ERR"
	}
	switch x := v.(type) {
	case nil:
		return "nil"
	case int:
		return strconv.Itoa(x)
	case *env.Env:
		if x == nil {
			return strconv.Itoa(nilModID)
		}
		if m, ok := r.mods[x]; ok {
			return fmt.Sprintf("module@%p", m)
		}
		return "unknown-env"
	}
	return fmt.Sprintf("?%#v", v)
}

const nilID = -999999

// nilModID: a binding to a nil *env.Env - a plain value, never a namespace
const nilModID = -999998

func (r *run) descM(v mval, ok bool) string {
	if !ok {
		return "ERR"
	}
	if v.id == nilID && v.mod == nil {
		return "nil"
	}
	if v.mod != nil {
		return fmt.Sprintf("module@%p", v.mod)
	}
	return strconv.Itoa(v.id)
}

// observe compares the full observable state of every addressable scope.
func (r *run) observe() string {
	r.ctlR.observing, r.ctlM.observing = true, true
	defer func() { r.ctlR.observing, r.ctlM.observing = false, false }()
	for i, p := range r.scopes {
		rs := map[string]struct{}{}
		for _, n := range p.real.GetValueSymbols() {
			if _, dup := rs[n]; dup {
				// a dictionary lists each key once
				return fmt.Sprintf("scope %d value symbols list %q more than once: %v", i, n, p.real.GetValueSymbols())
			}
			rs[n] = struct{}{}
		}
		ms := map[string]struct{}{}
		for n := range p.model.vals {
			ms[n] = struct{}{}
		}
		if symset(rs) != symset(ms) {
			return fmt.Sprintf("scope %d value symbols: real {%s} model {%s}", i, symset(rs), symset(ms))
		}
		rs = map[string]struct{}{}
		for _, n := range p.real.GetTypeSymbols() {
			if _, dup := rs[n]; dup {
				return fmt.Sprintf("scope %d type symbols list %q more than once: %v", i, n, p.real.GetTypeSymbols())
			}
			rs[n] = struct{}{}
		}
		ms = map[string]struct{}{}
		for n := range p.model.types {
			ms[n] = struct{}{}
		}
		if symset(rs) != symset(ms) {
			return fmt.Sprintf("scope %d type symbols: real {%s} model {%s}", i, symset(rs), symset(ms))
		}
		for _, n := range append(append([]string{}, valNames...), "ext0", "ext1", "zz", "al0", "al1") {
			v, err := p.real.Get(n)
			mv, ok := p.model.get(n)
			if a, b := r.descR(v, err), r.descM(mv, ok); a != b {
				return fmt.Sprintf("scope %d Get(%q): real %s model %s", i, n, a, b)
			}
		}
		for _, n := range append(append([]string{}, tNames...), "tz") {
			t, err := p.real.Type(n)
			mt, ok := p.model.typ(n)
			a, b := "ERR", "ERR"
			if err == nil {
				a = typeName(t)
			}
			if ok {
				b = mt
			}
			if a != b {
				return fmt.Sprintf("scope %d Type(%q): real %s model %s", i, n, a, b)
			}
		}
	}
	return ""
}

func hasDot(s string) bool { return strings.Contains(s, ".") }

// step applies op to both sides and returns a mismatch description.
func (r *run) step(op Op) (msg string) {
	if op.Scope >= len(r.scopes) {
		op.Scope = len(r.scopes) - 1
	}
	p := r.scopes[op.Scope]
	e, m := p.real, p.model
	defer func() {
		if x := recover(); x != nil {
			msg = fmt.Sprintf("PANIC in %s: %v", op.Kind, x)
		}
	}()
	cmpErr := func(err error, wantErr bool) string {
		if (err != nil) != wantErr {
			return fmt.Sprintf("%+v: real error %v, model expects error=%v", op, err, wantErr)
		}
		return ""
	}
	switch op.Kind {
	case "NewEnv":
		r.scopes = append(r.scopes, pair{e.NewEnv(), &mscope{vals: map[string]mval{}, types: map[string]string{}, parent: m}})
	case "NewModule":
		mod, err := e.NewModule(op.Name)
		if s := cmpErr(err, hasDot(op.Name)); s != "" {
			return s
		}
		if err != nil && err != env.ErrSymbolContainsDot {
			return fmt.Sprintf("%+v: error is not ErrSymbolContainsDot: %v", op, err)
		}
		mm := &mscope{vals: map[string]mval{}, types: map[string]string{}, parent: m}
		if err == nil {
			m.vals[op.Name] = mval{mod: mm}
		}
		r.mods[mod] = mm
		r.scopes = append(r.scopes, pair{mod, mm})
	case "Alias":
		if op.Iface == 3 {
			err := e.Define(op.Name, (*env.Env)(nil))
			if s := cmpErr(err, hasDot(op.Name)); s != "" {
				return s
			}
			if err == nil {
				m.vals[op.Name] = mval{id: nilModID}
			}
			break
		}
		target := r.scopes[op.Val%len(r.scopes)]
		var err error
		switch op.Iface % 3 {
		case 0:
			err = e.Define(op.Name, target.real)
		case 1:
			err = e.DefineValue(op.Name, reflect.ValueOf([]interface{}{target.real}).Index(0))
		default:
			var box interface{} = target.real
			err = e.DefineValue(op.Name, reflect.ValueOf(&box).Elem())
		}
		if s := cmpErr(err, hasDot(op.Name)); s != "" {
			return s
		}
		if err == nil {
			r.mods[target.real] = target.model
			m.vals[op.Name] = mval{mod: target.model}
		}
	case "Define", "DefineGlobal":
		var err error
		mv := mval{id: op.Val, addr: op.Addr}
		var iv interface{} = op.Val
		if op.Iface == 2 {
			iv, mv = nil, mval{id: nilID}
		} else if op.Iface == 1 {
			mv.addr = false
		}
		switch {
		case op.Kind == "Define" && op.Iface > 0:
			err = e.Define(op.Name, iv)
		case op.Kind == "Define":
			err = e.DefineValue(op.Name, mkVal(op.Val, op.Addr))
		case op.Iface > 0:
			err = e.DefineGlobal(op.Name, iv)
			m = m.root()
		default:
			err = e.DefineGlobalValue(op.Name, mkVal(op.Val, op.Addr))
			m = m.root()
		}
		if s := cmpErr(err, hasDot(op.Name)); s != "" {
			return s
		}
		if err != nil && err != env.ErrSymbolContainsDot {
			return fmt.Sprintf("%+v: error is not ErrSymbolContainsDot: %v", op, err)
		}
		if err == nil {
			m.vals[op.Name] = mv
		}
	case "Set":
		mv := mval{id: op.Val, addr: op.Addr}
		var err error
		switch op.Iface {
		case 2:
			err, mv = e.Set(op.Name, nil), mval{id: nilID}
		case 1:
			err, mv = e.Set(op.Name, op.Val), mval{id: op.Val}
		default:
			err = e.SetValue(op.Name, mkVal(op.Val, op.Addr))
		}
		found := false
		for s := m; s != nil; s = s.parent {
			if _, ok := s.vals[op.Name]; ok {
				s.vals[op.Name] = mv
				found = true
				break
			}
		}
		if s := cmpErr(err, !found); s != "" {
			return s
		}
	case "Get":
		v, err := e.Get(op.Name)
		mv, ok := m.get(op.Name)
		if a, b := r.descR(v, err), r.descM(mv, ok); a != b {
			return fmt.Sprintf("%+v: real %s model %s", op, a, b)
		}
	case "Addr":
		v, err := e.Addr(op.Name)
		mv, ok := m.get(op.Name)
		want := "ERR"
		if ok && mv.addr && mv.mod == nil {
			want = strconv.Itoa(mv.id)
		}
		if ok && mv.id == nilID && mv.mod == nil {
			want = "nil" // env.NilValue is an addressable interface value
		}
		got := "ERR"
		if err == nil {
			if v.Kind() != reflect.Ptr {
				return fmt.Sprintf("%+v: Addr returned a non-pointer %v", op, v.Kind())
			}
			got = r.descR(v.Elem().Interface(), nil)
		}
		// Addr is not among the operations the property specifies: when it fails, and whether a stored value
		// is addressable, is the implementation's business. What it returns on success must be the binding
		// a lookup would find.
		if got != "ERR" && want != "ERR" && got != want {
			return fmt.Sprintf("%+v: Addr points at %s, the nearest binding is %s", op, got, want)
		}
		if got != "ERR" && !ok {
			return fmt.Sprintf("%+v: Addr succeeded for a name that is bound nowhere (points at %s)", op, got)
		}
	case "AddrSet":
		// a write through the address of a binding (what `p = &a; *p = v` does in a script): it changes that one
		// binding and nothing else - in particular no snapshot taken earlier. Only attempted where the model knows
		// which binding Addr must find without consulting an external lookup, and where that binding holds an
		// addressable number; when Addr refuses is the implementation's business.
		var owner *mscope
		for s := m; s != nil; s = s.parent {
			if _, ok := s.vals[op.Name]; ok {
				owner = s
				break
			}
			if s.ext != nil {
				break
			}
		}
		if owner == nil {
			break
		}
		mv := owner.vals[op.Name]
		if !mv.addr || mv.mod != nil || mv.id == nilID {
			break
		}
		v, err := e.Addr(op.Name)
		if err != nil || v.Kind() != reflect.Ptr || v.Elem().Kind() != reflect.Int || !v.Elem().CanSet() {
			break
		}
		if got := int(v.Elem().Int()); got != mv.id {
			return fmt.Sprintf("%+v: Addr points at %d, the nearest binding is %d", op, got, mv.id)
		}
		v.Elem().SetInt(int64(op.Val))
		owner.vals[op.Name] = mval{id: op.Val, addr: true}
	case "Delete":
		e.Delete(op.Name)
		delete(m.vals, op.Name)
	case "DeleteGlobal":
		e.DeleteGlobal(op.Name)
		s := m
		for s.parent != nil {
			if _, ok := s.vals[op.Name]; ok {
				break
			}
			s = s.parent
		}
		delete(s.vals, op.Name)
	case "DefineType", "DefineGlobalType":
		var err error
		tname := "T" + strconv.Itoa(op.Val)
		var targ interface{} = typePool[op.Val] // a reflect.Type
		if op.Iface == 2 {
			targ, tname = nil, "<nil>"
		} else if op.Iface == 1 {
			targ = reflect.Zero(typePool[op.Val]).Interface() // a value of the type
		} // 3: the reflect.Type itself travels through the interface{} parameter
		switch {
		case op.Kind == "DefineType" && op.Iface > 0:
			err = e.DefineType(op.Name, targ)
		case op.Kind == "DefineType":
			err = e.DefineReflectType(op.Name, typePool[op.Val])
		case op.Iface > 0:
			err = e.DefineGlobalType(op.Name, targ)
			m = m.root()
		default:
			err = e.DefineGlobalReflectType(op.Name, typePool[op.Val])
			m = m.root()
		}
		if s := cmpErr(err, hasDot(op.Name)); s != "" {
			return s
		}
		if err == nil {
			m.types[op.Name] = tname
		}
	case "Type":
		t, err := e.Type(op.Name)
		mt, ok := m.typ(op.Name)
		a, b := "ERR", "ERR"
		if err == nil {
			a = typeName(t)
		}
		if ok {
			b = mt
		}
		if a != b {
			return fmt.Sprintf("%+v: real %s model %s", op, a, b)
		}
	case "ValueSymbols", "TypeSymbols", "String":
		// covered by observe(); String must at least not panic and mention the parent flag
		if op.Kind == "String" {
			_ = e.String() // the text is not specified by the property: it must only not panic
		}
	case "Copy":
		r.scopes = append(r.scopes, pair{e.Copy(), m.copy()})
	case "DeepCopy":
		r.scopes = append(r.scopes, pair{e.DeepCopy(), m.deepCopy()})
	case "SetExt":
		if op.Stub < 0 {
			e.SetExternalLookup(nil)
			m.ext = nil
			break
		}
		r.stubsR[op.Stub].home, r.stubsM[op.Stub].home = e, m
		e.SetExternalLookup(r.stubsR[op.Stub])
		m.ext = r.stubsM[op.Stub]
	case "EnvFromPath":
		got, err := e.GetEnvFromPath(op.Path)
		// reading 1 (walk up past non-module bindings); reading 2 (a non-module binding of path[0] is an error)
		want1, want2 := m, m
		ok1, ok2 := true, true
		if len(op.Path) > 0 {
			cur := m
			shadowed := false
			for {
				if v, ok := cur.vals[op.Path[0]]; ok {
					if v.mod != nil {
						cur = v.mod
						break
					}
					shadowed = true
				}
				if cur.parent == nil {
					cur = nil
					break
				}
				cur = cur.parent
			}
			for i := 1; cur != nil && i < len(op.Path); i++ {
				v, ok := cur.vals[op.Path[i]]
				if ok && v.mod != nil {
					cur = v.mod
				} else {
					cur = nil
				}
			}
			want1, ok1 = cur, cur != nil
			want2, ok2 = cur, cur != nil && !shadowed
		}
		var gotM *mscope
		if err == nil {
			if got == nil {
				return fmt.Sprintf("%+v: returned nil env and nil error", op)
			}
			gotM = r.modelOf(got)
			if gotM == nil {
				return fmt.Sprintf("%+v: returned an env the model cannot identify", op)
			}
		}
		m1 := (err == nil) == ok1 && (err != nil || gotM == want1)
		m2 := (err == nil) == ok2 && (err != nil || gotM == want2)
		if !m1 && !m2 {
			return fmt.Sprintf("%+v: real err=%v, model expects found=%v", op, err, ok1)
		}
	}
	return ""
}

func (r *run) modelOf(e *env.Env) *mscope {
	if m, ok := r.mods[e]; ok {
		return m
	}
	for _, p := range r.scopes {
		if p.real == e {
			return p.model
		}
	}
	return nil
}

func firstLine(s string) string {
	if i := strings.IndexByte(s, '\n'); i >= 0 {
		return s[:i]
	}
	return s
}

func (Prop) Run(t *testing.T, c *harness.Case, verbose bool) *harness.Result {
	var w Work
	res := &harness.Result{Counters: map[string]int{}, Outcome: "done"}
	if err := json.Unmarshal(c.Workload, &w); err != nil {
		res.Inconclusive = "bad workload"
		return res
	}
	fail := map[int]bool{}
	for _, ev := range c.Events {
		if ev.Kind == "ext-fail" {
			fail[ev.Arg] = true
		}
	}
	r := &run{mods: map[*env.Env]*mscope{}, ctlR: &stubCtl{fail: fail}, ctlM: &stubCtl{fail: fail}}
	for _, sp := range w.Stubs {
		r.stubsR = append(r.stubsR, &realStub{spec: sp, ctl: r.ctlR})
		r.stubsM = append(r.stubsM, &mstub{spec: sp, ctl: r.ctlM})
	}
	var mismatch string
	var at int
	var trace []string
	sim := simrt.Solo(func() {
		r.scopes = []pair{{env.NewEnv(), &mscope{vals: map[string]mval{}, types: map[string]string{}}}}
		for i, op := range w.Ops {
			if op.Kind == "SetExt" && op.Stub >= len(r.stubsR) {
				continue
			}
			msg := r.step(op)
			if msg == "" {
				msg = func() (m string) {
					defer func() {
						if x := recover(); x != nil {
							m = fmt.Sprintf("PANIC while observing state after %+v: %v", op, x)
						}
					}()
					return r.observe()
				}()
				if msg != "" {
					msg = fmt.Sprintf("after %+v: %s", op, msg)
				}
			}
			if verbose {
				trace = append(trace, fmt.Sprintf("%d %+v %s", i, op, msg))
			}
			if msg != "" {
				mismatch, at = msg, i
				return
			}
		}
	})
	res.Steps = sim.Step
	res.Tasks = 1
	for k, v := range sim.Counters {
		res.Counters[k] = v
	}
	res.Counters["ext_fault_fired"] = r.ctlR.fired
	res.Counters["ext_lookup_hit"] = r.ctlM.hits
	res.Counters["ext_lookup_miss"] = r.ctlM.misses
	res.Counters["ops"] = len(w.Ops)
	res.Counters["scopes"] = len(r.scopes)
	res.LogHash = harness.HashStrings(string(c.Workload), fmt.Sprint(c.Events))
	res.Shape = res.LogHash
	res.Nontrivial = len(r.scopes) > 1
	res.Log = trace
	if r.ctlR.calls != r.ctlM.calls && mismatch == "" {
		mismatch = fmt.Sprintf("external lookup consulted %d times, model expects %d", r.ctlR.calls, r.ctlM.calls)
	}
	for _, v := range sim.Viol {
		res.Violation = v.Class
		res.Detail = v.Detail
		res.Signature = v.Class + ":" + v.Detail
		return res
	}
	if mismatch != "" {
		if strings.Contains(mismatch, "PANIC") {
			res.Violation = "op-panic"
		} else {
			res.Violation = "model-mismatch"
		}
		res.Detail = fmt.Sprintf("op #%d: %s", at, mismatch)
		res.Signature = res.Violation + ":" + w.Ops[at].Kind
	}
	return res
}

func (Prop) Shrink(c *harness.Case) []*harness.Case {
	var w Work
	if json.Unmarshal(c.Workload, &w) != nil {
		return nil
	}
	var out []*harness.Case
	emit := func(nw Work, evs []harness.EventSpec) {
		d := c.Clone()
		d.Workload, _ = json.Marshal(nw)
		d.Events = evs
		out = append(out, d)
	}
	n := len(w.Ops)
	// truncate the tail, then halves, then single ops
	for _, k := range []int{n / 2, n - n/4, n - 1} {
		if k > 0 && k < n {
			nw := w
			nw.Ops = append([]Op{}, w.Ops[:k]...)
			emit(nw, c.Events)
		}
	}
	for i := 0; i < n; i++ {
		k := w.Ops[i].Kind
		if k == "NewEnv" || k == "NewModule" || k == "Copy" || k == "DeepCopy" {
			// removing a scope-creating op renumbers scopes: replace by a harmless op instead
			continue
		}
		nw := w
		nw.Ops = append(append([]Op{}, w.Ops[:i]...), w.Ops[i+1:]...)
		emit(nw, c.Events)
	}
	for i := range c.Events {
		evs := append(append([]harness.EventSpec{}, c.Events[:i]...), c.Events[i+1:]...)
		emit(w, evs)
	}
	for i := range w.Ops {
		if len(w.Ops[i].Path) > 1 {
			nw := w
			nw.Ops = append([]Op{}, w.Ops...)
			nw.Ops[i].Path = nw.Ops[i].Path[:len(nw.Ops[i].Path)-1]
			emit(nw, c.Events)
		}
	}
	return out
}
