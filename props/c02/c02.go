// Package c02: cancelling the context always stops a running script.
//
// program = wrappers(core). The core never terminates on its own (it spins or
// blocks); the wrappers put it under every construct that could swallow or
// miss the interruption. The cancel instant is a scheduler event: at step K
// (before the first statement, during set-up, at every distinct poll of the
// core), at first quiescence (every task blocked in a channel operation), or at
// a fake-clock time while the script sleeps.
//
// Oracle (in scheduler steps, never wall-clock):
//
//	O1 after the cancel every task finishes within B further steps, B = (60 + 16*defer
//	   statements + 10*depth) per live task + 10 per step taken before the cancel
//	   (each step may have registered one deferred call that must still be run and
//	   interrupted); a spinning script exceeds any bound;
//	O2 if the main task observed the cancellation, RunContext's error message
//	   is exactly "execution interrupted";
//	O3 after a task first observed the cancellation it performs no further
//	   non-deferred tick().
package c02

import (
	"context"
	"encoding/json"
	"fmt"
	"strings"
	"sync"
	"testing"
	"time"

	"github.com/mattn/anko/env"
	"github.com/mattn/anko/parser"
	"github.com/mattn/anko/vm"

	"verifsim/harness"
	"verifsim/simrt"
)

type W struct {
	K string `json:"k"`
	A int    `json:"a,omitempty"`
	D int    `json:"d,omitempty"` // pending `defer dtick(i)` registered in the function this wrapper creates
}

type Work struct {
	Wrappers []W    `json:"wrappers"` // outermost first
	Core     string `json:"core"`
	NoTrail  bool   `json:"no_trail,omitempty"` // no trailing tick(): the wrapped program is the script's last statement
	Elem     string `json:"elem,omitempty"`     // element type of the channels the blocked cores use (default int64)
	Deadline bool   `json:"deadline,omitempty"` // the context also carries a deadline far in the future (a WithTimeout context cancelled early)
	Merged   bool   `json:"merged,omitempty"`   // the context is the host's own type: Done / Err of its own, Value delegated to a live standard cancel context
	LibCtx   int    `json:"lib_ctx,omitempty"`  // how the earlier run that defined the library was made: 0 cancellable context (never cancelled), 1 context.Background(), 2 vm.Execute, 3 vm.Execute with nil options
	// Twin > 0: a second call runs on the same environment at the same time, under a context of its own that is
	// never cancelled (twinPrograms[Twin-1]). It is not judged and not waited for; the cancelled call must return
	// whatever the other one is doing.
	Twin int `json:"twin,omitempty"`
}

var cores = []string{
	"spin-loop", "spin-true", "spin-cfor", "spin-forin-slice", "spin-forin-map", "spin-recursion",
	"spin-empty", "spin-incr", "spin-continue", "spin-switch", "spin-nested-fn", "spin-sleep",
	"block-recv-expr", "block-recv-let", "block-recv-ok", "block-send", "block-send-full", "block-range", "block-pipe",
	"block-recv-nested", "block-send-expr-arg",
	"spin-cfor-empty", "spin-true-empty", "spin-forin-empty", "spin-recursion-quiet", "spin-forin-big", "spin-anon-expr", "block-recv-after-first",
	"block-range-body-recv", "block-range-shared", "spin-fib", "spin-mutual",
	"lib-spin-5", "lib-spin-v", "lib-block-5", "lib-block-v", "lib-spin-1", "lib-send", "lib-range", "lib-rec", "lib-closure",
	"spin-modcopy", "block-relay-implicit", "block-relay-explicit", "block-relay-func", "spin-ptr-cycle", "spin-ptr-cycle-set", "spin-ptr-cycle-forin", "spin-ptr-cycle-forin-chan", "spin-ptr-ring-forin",
	"spin-quiet-elseif", "spin-quiet-else", "spin-quiet-switch", "spin-quiet-try", "spin-quiet-nested",
	"block-fanin-send", "block-fanout-recv",
	"block-recv-if", "block-recv-arg", "block-recv-switch", "block-recv-ok-target", "block-recv-value-target", "block-send-target",
	"go-after-failed-go", "go-after-failed-go-nil", "go-after-failed-go-throw", "go-churn-failing",
	"foreign-close", "foreign-close-blocked", "foreign-close-in-go", "foreign-feed", "foreign-drain", "foreign-drain-range", "foreign-drain-ok", "foreign-relay",
}

// foreignPrelude is run like the library prelude, by an earlier call under a context that is never cancelled, and
// leaves goroutines behind: a sender nobody serves, a consumer, a producer. The foreign-* cores make the cancelled
// run meet them. Those goroutines belong to another call: they are not judged and not waited for.
const foreignPrelude = `
fch = make(chan int64)
go func() { fch <- 7 }()
go func(c) { c <- 8 }(fch)
fsink = make(chan int64)
go func() { for v in fsink { } }()
fsrc = make(chan int64)
go func() { for { fsrc <- 1 } }()
`

// twinPrograms: what the second call on the same environment does meanwhile. Its names are its own (tw*).
var twinPrograms = []string{
	"twq = 0\nfor { twq = twq + 1; tick() }",
	"module twm {\ntwv = 1\nfor { twv = twv + 1; tick() }\n}",
	"func twf(a, b, c, d, e) { for { tick() } }\ntwf(1, 2, 3, 4, 5)",
	"twc = make(chan int64)\nfor { twc <- 1 }",
	"twc = make(chan int64)\nfor twv in twc { }",
	"module twm { twv = 1 }\nfor { twx = twm; tick() }",
	"func twd() { defer tick(); tick() }\nfor { twd() }",
	"twl = []\nfor { try { throw \"x\" } catch twe { twl = [twe] } finally { tick() } }",
	"for { go func() { tick() }(); tick(); sleep(1) }",
}

// prelude is run once, under its own never-cancelled context, on the environment the cancelled run
// will use: a library loaded at start-up. The lib-* cores only call into it.
const prelude = `
func libspin5(a, b, c, d, e) { for { tick() } }
func libspinv(a, rest...) { for { tick() } }
func libspin1(a) { for { tick() } }
func libblock5(a, b, c, d, e) { ch = make(chan int64); <-ch }
func libblockv(a, rest...) { ch = make(chan int64); v, ok = <-ch }
func libsend(a) { ch = make(chan int64); ch <- a }
func librange(a, b, c, d, e, f) { for v in make(chan int64) { tick() } }
func librec(n) { if n > 0 { librec(n - 1) }; tick() }
func libmk() { return func() { for { tick() } } }
`

var wrapKinds = []struct {
	k string
	n int // number of variants
}{
	{"if", 5}, {"switch", 2}, {"loop", 4}, {"try-body", 8}, {"catch", 2}, {"finally", 5},
	{"func", 7}, {"funcvar", 2}, {"anon", 2}, {"module", 1}, {"go", 5}, {"defer", 6}, {"expr", nExpr}, {"hostcallback", 2},
}

const nExpr = 37

func isSpinTick(core string) bool {
	switch core {
	case "spin-quiet-elseif", "spin-quiet-else", "spin-quiet-switch", "spin-quiet-try", "spin-quiet-nested":
		return false
	case "spin-empty", "spin-incr", "spin-continue", "spin-cfor-empty", "spin-true-empty", "spin-forin-empty", "spin-recursion-quiet", "spin-forin-big", "spin-anon-expr", "spin-fib", "spin-mutual":
		return false
	}
	return strings.HasPrefix(core, "spin-")
}

// renderCore returns statements that never terminate without a cancel.
func renderCore(core string, u string) string {
	switch core {
	case "spin-loop":
		return "for { tick() }"
	case "spin-true":
		return "for true { tick() }"
	case "spin-cfor":
		return "for i" + u + " = 0; true; i" + u + "++ { tick() }"
	case "spin-forin-slice":
		return "for { for x" + u + " in [1, 2, 3] { tick() } }"
	case "spin-forin-map":
		return "for { for k" + u + ", v" + u + " in {\"a\": 1} { tick() } }"
	case "spin-recursion":
		return "func r" + u + "(n) { if n > 0 { r" + u + "(n - 1) }; tick() }\nfor { r" + u + "(3) }"
	case "spin-empty":
		return "for { }"
	// a module copied over and over (assignment copies the whole chain of scopes) while another goroutine keeps
	// assigning to a variable of the outermost scope and the main script reads it
	case "spin-modcopy":
		return "module mm" + u + " { mv = 1 }\ngq" + u + " = 0\ngo func() { for { cx" + u + " = mm" + u + "; tick() } }()\ngo func() { for { gq" + u + " = gq" + u + " + 1; tick() } }()\nfor { gz" + u + " = gq" + u + "; tick() }"
	// a relay that has taken its item and now waits for a receiver nobody provides
	case "block-relay-implicit":
		return "rs" + u + " = make(chan int64, 1)\nrs" + u + " <- 1\nrd" + u + " = make(chan int64)\nrd" + u + " <- rs" + u
	case "block-relay-explicit":
		return "rs" + u + " = make(chan interface, 2)\nrs" + u + " <- 1\nrs" + u + " <- 2\nrd" + u + " = make(chan interface, 1)\nfor { rd" + u + " <- <-rs" + u + " }"
	case "block-relay-func":
		return "func rl" + u + "(a, b) { b <- a }\nrs" + u + " = make(chan int64, 1)\nrs" + u + " <- 1\nrl" + u + "(rs" + u + ", make(chan int64))"
	// a pointer that points at itself, used where the interpreter follows pointers
	case "spin-ptr-cycle":
		return "pa" + u + " = 1\npp" + u + " = &pa" + u + "\n*pp" + u + " = pp" + u + "\nfor {\ntry { pv" + u + " = pp" + u + ".x } catch { }\ntick()\n}"
	case "spin-ptr-cycle-set":
		return "pa" + u + " = 1\npp" + u + " = &pa" + u + "\n*pp" + u + " = pp" + u + "\nfor {\ntry { pp" + u + ".x = 1 } catch { }\ntry { pw" + u + " = *pp" + u + " } catch { }\ntick()\n}"
	// ... and where it unwraps the elements a for-in hands out: a slice, a channel, a ring of two pointers
	case "spin-ptr-cycle-forin":
		return "pa" + u + " = 1\npp" + u + " = &pa" + u + "\n*pp" + u + " = pp" + u + "\nfor {\nfor px" + u + " in [1, pp" + u + "] { tick() }\n}"
	case "spin-ptr-cycle-forin-chan":
		return "pa" + u + " = 1\npp" + u + " = &pa" + u + "\n*pp" + u + " = pp" + u + "\npc" + u + " = make(chan interface, 2)\nfor {\npc" + u + " <- pp" + u + "\nfor px" + u + " in pc" + u + " {\ntick()\nbreak\n}\n}"
	case "spin-ptr-ring-forin":
		return "pa" + u + " = 1\npb" + u + " = 2\npp" + u + " = &pa" + u + "\npq" + u + " = &pb" + u + "\n*pp" + u + " = pq" + u + "\n*pq" + u + " = pp" + u + "\nfor {\nfor pk" + u + ", px" + u + " in {\"a\": pp" + u + "} { tick() }\nfor px" + u + " in [pq" + u + "] { tick() }\n}"
	// functions whose body contains no call, no channel operation and no loop - except one, tucked into a branch
	case "spin-quiet-elseif":
		return "func q" + u + "(a) {\nif a == 0 { } else if a == 1 {\nfor { }\n} else { }\nreturn a\n}\nq" + u + "(1)"
	case "spin-quiet-else":
		return "func q" + u + "(a) {\nif a == 0 { return 0 } else {\nfor a > 0 { }\n}\n}\nq" + u + "(1)"
	case "spin-quiet-switch":
		return "func q" + u + "(a) {\nswitch a {\ncase 0:\nreturn 0\ncase 1:\nfor { }\n}\n}\nq" + u + "(1)"
	case "spin-quiet-try":
		return "func q" + u + "(a) {\ntry { throw \"x\" } catch e" + u + " {\nfor { }\n}\n}\nq" + u + "(1)"
	case "spin-quiet-nested":
		return "func q" + u + "(a) {\nif a == 0 { } else if a == 2 { } else if a == 1 {\nif a == 1 {\nfor i" + u + " = 0; true; i" + u + "++ { }\n}\n}\n}\nq" + u + "(1)"
	case "spin-incr":
		return "i" + u + " = 0\nfor { i" + u + "++ }"
	case "spin-continue":
		return "for { if true { continue } }"
	case "spin-switch":
		return "for { switch 1 { case 1: tick() } }"
	case "spin-nested-fn":
		return "func s" + u + "(a, b, c, d, e) { tick(); return a }\nfor { s" + u + "(1, 2, 3, 4, 5) }"
	case "spin-sleep":
		return "for { sleep(5) }"
	case "spin-cfor-empty":
		return "for i" + u + " = 0; true; i" + u + "++ { }"
	case "spin-true-empty":
		return "for true { }"
	case "spin-forin-empty":
		return "for { for x" + u + " in [1, 2, 3] { } }"
	case "spin-recursion-quiet":
		return "func r" + u + "(n) { if n > 0 { return r" + u + "(n - 1) }; return 0 }\nfor { r" + u + "(3) }"
	case "spin-forin-big":
		return "l" + u + " = make([]int64, 50)\nfor { for x" + u + " in l" + u + " { } }"
	case "spin-anon-expr":
		return "for { func(a, b) { return a + b }(1, 2) }"
	case "block-recv-after-first":
		return "c" + u + " = make(chan int64, 1)\nc" + u + " <- 1\nfor v" + u + " in c" + u + " { tick() }"
	case "block-recv-if":
		return "c" + u + " = make(chan int64)\nif <-c" + u + " { tick() }"
	case "block-recv-arg":
		return "c" + u + " = make(chan int64)\nhid(hid(<-c" + u + "))"
	case "block-recv-switch":
		return "c" + u + " = make(chan int64)\nswitch <-c" + u + " {\ncase 1, 2:\ntick()\ndefault:\ntick()\n}"
	case "block-fanin-send":
		// several senders compete for the one free slot of a buffered channel while the receiver keeps draining it
		return "c" + u + " = make(chan int64, 1)\ngo func() { for { c" + u + " <- 1 } }()\ngo func() { for { c" + u + " <- 2 } }()\ngo func(a, b, c, d, e) { for { a <- 3 } }(c" + u + ", 2, 3, 4, 5)\nfor { <-c" + u + "; tick() }"
	case "block-fanout-recv":
		return "c" + u + " = make(chan int64, 2)\ngo func() { for { <-c" + u + " } }()\ngo func() { for v" + u + " in c" + u + " { } }()\ngo func() { for { x" + u + ", ok" + u + " = <-c" + u + " } }()\nfor { c" + u + " <- 1; tick() }"
	case "lib-spin-5":
		return "libspin5(1, 2, 3, 4, 5)"
	case "lib-spin-v":
		return "libspinv(1, 2, 3)"
	case "lib-spin-1":
		return "libspin1(1)"
	case "lib-block-5":
		return "libblock5(1, 2, 3, 4, 5)"
	case "lib-block-v":
		return "libblockv([1, 2]...)"
	case "lib-send":
		return "libsend(1)"
	case "lib-range":
		return "librange(1, 2, 3, 4, 5, 6)"
	case "lib-rec":
		return "for { librec(3) }"
	case "lib-closure":
		return "f" + u + " = libmk()\nf" + u + "()"
	case "block-range-body-recv":
		// the loop body takes an item the range already counted as buffered
		return "c" + u + " = make(chan int64, 4)\nc" + u + " <- 1\nc" + u + " <- 2\nc" + u + " <- 3\nc" + u + " <- 4\nfor k" + u + " in c" + u + " { v" + u + " = <-c" + u + " }"
	case "block-range-shared":
		return "c" + u + " = make(chan int64, 3)\nc" + u + " <- 1\nc" + u + " <- 2\nc" + u + " <- 3\ngo func() { <-c" + u + "; <-c" + u + " }()\nfor k" + u + " in c" + u + " { tick() }"
	case "spin-fib":
		// loop-free recursion through one-line functions: effectively endless
		return "func fib" + u + "(n) { return n < 2 ? n : fib" + u + "(n - 1) + fib" + u + "(n - 2) }\nfor { fib" + u + "(16) }"
	case "spin-mutual":
		return "func ev" + u + "(n) { return n == 0 ? 1 : od" + u + "(n - 1) + od" + u + "(n - 1) }\nfunc od" + u + "(n) { return n == 0 ? 0 : ev" + u + "(n - 1) + ev" + u + "(n - 1) }\nfor { ev" + u + "(12) }"
	case "block-recv-expr":
		return "c" + u + " = make(chan int64)\n<-c" + u
	case "block-recv-let":
		return "c" + u + " = make(chan int64)\nv" + u + " = <-c" + u
	case "block-recv-ok":
		return "c" + u + " = make(chan int64)\nv" + u + ", ok" + u + " = <-c" + u
	case "block-send":
		return "c" + u + " = make(chan int64)\nc" + u + " <- 1"
	case "block-send-full":
		return "c" + u + " = make(chan int64, 1)\nc" + u + " <- 1\nc" + u + " <- 2"
	case "block-range":
		return "c" + u + " = make(chan int64)\nfor v" + u + " in c" + u + " { tick() }"
	case "block-pipe":
		return "a" + u + " = make(chan int64)\nb" + u + " = make(chan int64, 1)\nb" + u + " <- <-a" + u
	case "block-recv-nested":
		return "c" + u + " = make(chan int64)\nx" + u + " = [1, <-c" + u + "]"
	case "block-send-expr-arg":
		return "c" + u + " = make(chan int64)\nhid(c" + u + " <- 1)"
	// the script blocks while it evaluates the TARGET of a receive statement (the index of `m[<-never]`), the received
	// item already in hand; the targets are fresh names, or members
	case "block-recv-ok-target":
		return "c" + u + " = make(chan int64, 1)\nc" + u + " <- 1\nnv" + u + " = make(chan int64)\nfl" + u + " = {}\nrv" + u + ", fl" + u + "[<-nv" + u + "] = <-c" + u
	case "block-recv-value-target":
		return "c" + u + " = make(chan int64, 1)\nc" + u + " <- 1\nnv" + u + " = make(chan int64)\nfl" + u + " = {}\nfl" + u + "[<-nv" + u + "], ok" + u + " = <-c" + u
	case "block-send-target":
		return "nv" + u + " = make(chan int64)\ncs" + u + " = [make(chan int64, 1)]\ncs" + u + "[<-nv" + u + "] <- 1"
	// goroutines that END BY FAILING (a host function that panics, a nil function value, a throw), then further go
	// statements, then the endless part: whatever the interpreter keeps about its goroutines must survive a failure
	case "go-after-failed-go":
		return "go boom()\ngw" + u + " = make(chan int64)\ngo func() { gw" + u + " <- 1 }()\n<-gw" + u + "\ngo func(a) { tick() }(1)\nfor { tick() }"
	case "go-after-failed-go-nil":
		return "gn" + u + " = hid(nil)\ntry { go gn" + u + "() } catch { }\ngo boom()\nfunc gf" + u + "(a, b, c, d, e) { tick() }\nfor i" + u + " = 0; i" + u + " < 3; i" + u + "++ { go gf" + u + "(1, 2, 3, 4, 5) }\ngc" + u + " = make(chan int64)\n<-gc" + u
	case "go-after-failed-go-throw":
		return "func gt" + u + "() { throw \"gt\" }\ngo gt" + u + "()\ngo func(a, r...) { boom() }(1, 2)\ngd" + u + " = make(chan int64, 1)\ngo func() { gd" + u + " <- 1 }()\nfor v" + u + " in gd" + u + " { tick() }"
	case "go-churn-failing":
		return "for { go boom(); go func() { tick() }(); tick(); sleep(1) }"
	// the cancelled run meets goroutines an earlier call left behind (foreignPrelude)
	case "foreign-close":
		return "close(fch)\nfor { tick() }"
	case "foreign-close-blocked":
		return "close(fch)\nc" + u + " = make(chan int64)\n<-c" + u
	case "foreign-close-in-go":
		return "go func() { close(fch) }()\nfor { tick() }"
	case "foreign-feed":
		return "for { fsink <- 1; tick() }"
	case "foreign-drain":
		return "for { <-fsrc; tick() }"
	case "foreign-drain-range":
		return "for v" + u + " in fsrc { tick() }"
	case "foreign-drain-ok":
		return "for { v" + u + ", ok" + u + " = <-fsrc; tick() }"
	case "foreign-relay":
		return "for { fsink <- <-fsrc; tick() }"
	}
	return "for { tick() }"
}

func params(n int, u string) (string, string) {
	var ps, as []string
	for i := 0; i < n; i++ {
		ps = append(ps, fmt.Sprintf("p%s_%d", u, i))
		as = append(as, fmt.Sprint(i+1))
	}
	return strings.Join(ps, ", "), strings.Join(as, ", ")
}

// pending registers d deferred host probes at the start of a function body. dpre records that the defer
// statement is about to run, dmark that it completed: the number of registrations lies between the two counts
// (an interrupt can land between any two of the three statements), so the deferred call is owed at least
// dmark times and at most dpre times.
func pending(d int, u string) string {
	s := ""
	for i := 0; i < d; i++ {
		s += fmt.Sprintf("dpre(%s%d)\ndefer dtick(%s%d)\ndmark(%s%d)\n", u, i+1, u, i+1, u, i+1)
	}
	return s
}

// wrap puts body (statements) under wrapper w; u is a unique suffix.
func wrap(w W, body, u string) string {
	switch w.K {
	case "if":
		switch w.A % 5 {
		case 0:
			return "if true {\n" + body + "\n}"
		case 1:
			return "if false { tick() } else {\n" + body + "\n}"
		case 2:
			return "if false { tick() } else if true {\n" + body + "\n}"
		case 3:
			return "if false { } else if true {\n" + body + "\n}"
		default:
			return "if false { } else if false { } else if true {\n" + body + "\n} else { }"
		}
	case "switch":
		if w.A%2 == 0 {
			return "switch 1 {\ncase 1:\n" + body + "\n}"
		}
		return "switch 2 {\ncase 1:\ntick()\ndefault:\n" + body + "\n}"
	case "loop":
		switch w.A % 4 {
		case 0:
			return "for {\n" + body + "\n}"
		case 1:
			return "for j" + u + " = 0; j" + u + " < 1; j" + u + "++ {\n" + body + "\n}"
		case 2:
			return "for q" + u + " in [1] {\n" + body + "\n}"
		default:
			return "for true {\n" + body + "\n}"
		}
	case "try-body":
		switch w.A % 8 {
		case 5:
			// the catch block is nothing but loop control: an interruption that reaches it must not be taken for it
			return "for {\ntry {\n" + body + "\n} catch { break }\n}"
		case 6:
			return "for {\ntry {\n" + body + "\n} catch { continue }\n}"
		case 7:
			return "func b" + u + "() {\nfor {\ntry {\n" + body + "\n} catch e" + u + " { break }\n}\n}\nb" + u + "()"
		case 0:
			return "try {\n" + body + "\n} catch e" + u + " { tick() }"
		case 1:
			return "try {\n" + body + "\n} catch { tick() } finally { tick() }"
		case 2:
			return "try {\n" + body + "\n} catch { }"
		case 3:
			return "try {\n" + body + "\n} catch e" + u + " { }"
		default:
			return "try {\n" + body + "\n} catch { } finally { }"
		}
	case "catch":
		if w.A%2 == 0 {
			return "try { throw \"x\" } catch e" + u + " {\n" + body + "\n}"
		}
		return "try { throw \"x\" } catch {\n" + body + "\n} finally { tick() }"
	case "finally":
		if w.A%5 == 0 {
			return "try { } catch e" + u + " { } finally {\n" + body + "\n}"
		}
		switch w.A % 5 {
		case 2:
			// whether a finally runs after its catch block failed is C09's business; if it does, an
			// interruption inside it is still an interruption
			return "try { throw \"x\" } catch e" + u + " { throw \"boom\" } finally {\n" + body + "\n}"
		case 3:
			return "for {\ntry { break } catch e" + u + " { } finally {\n" + body + "\n}\n}"
		case 4:
			return "func t" + u + "() {\ntry { return 1 } catch e" + u + " { } finally {\n" + body + "\n}\n}\nt" + u + "()"
		}
		return "try { throw \"x\" } catch e" + u + " { } finally {\n" + body + "\n}"
	case "func":
		ps, as := params(w.A%7, u)
		return "func f" + u + "(" + ps + ") {\n" + pending(w.D, u) + body + "\n}\nf" + u + "(" + as + ")"
	case "funcvar":
		if w.A%2 == 0 {
			return "func f" + u + "(a" + u + ", b" + u + "...) {\n" + pending(w.D, u) + body + "\n}\nf" + u + "(1, 2, 3)"
		}
		return "func f" + u + "(a" + u + ", b" + u + ") {\n" + pending(w.D, u) + body + "\n}\nf" + u + "([1, 2]...)"
	case "anon":
		if w.A%2 == 0 {
			return "func() {\n" + pending(w.D, u) + body + "\n}()"
		}
		return "func(a" + u + ") {\n" + pending(w.D, u) + body + "\n}(1)"
	case "module":
		return "module M" + u + " {\nfunc g" + u + "() {\n" + pending(w.D, u) + body + "\n}\n}\nM" + u + ".g" + u + "()"
	case "go":
		switch w.A % 5 {
		case 0:
			return "go func() {\n" + body + "\n}()\n<-make(chan int64)"
		case 1:
			return "go func() {\n" + body + "\n}()\nfor { tick() }"
		case 2:
			return "done" + u + " = make(chan int64)\ngo func() {\n" + body + "\ndone" + u + " <- 1\n}()\n<-done" + u
		case 3:
			return "func g" + u + "(a, b, c, d, e) {\n" + body + "\n}\ngo g" + u + "(1, 2, 3, 4, 5)\n<-make(chan int64)"
		default:
			return "func g" + u + "(a, b...) {\n" + body + "\n}\ngo g" + u + "(1, 2, 3)\n<-make(chan int64)"
		}
	case "defer":
		switch w.A % 6 {
		// the body of the invocation FAILS after it has registered the deferred call that never ends
		case 3:
			return "func f" + u + "() {\ndefer func() {\n" + body + "\n}()\nthrow \"fb\"\n}\nf" + u + "()"
		case 4:
			return "func d" + u + "(a, b, c, d, e) {\n" + body + "\n}\nfunc f" + u + "() {\ndefer d" + u + "(1, 2, 3, 4, 5)\nreturn hid([1])[5]\n}\nf" + u + "()"
		case 5:
			return "defer func() {\n" + body + "\n}()\nthrow \"tb\""
		}
		switch w.A % 3 {
		case 0:
			return "func f" + u + "() {\ndefer func() {\n" + body + "\n}()\nreturn 1\n}\nf" + u + "()"
		case 1:
			return "func d" + u + "(a, b, c, d, e) {\n" + body + "\n}\nfunc f" + u + "() {\ndefer d" + u + "(1, 2, 3, 4, 5)\n}\nf" + u + "()"
		default:
			return "defer func() {\n" + body + "\n}()"
		}
	case "hostcallback":
		if w.A%2 == 0 {
			return "call(func() {\n" + body + "\n})"
		}
		return "call1(func(x" + u + ") {\n" + body + "\n})"
	case "expr":
		def := "func e" + u + "() {\n" + body + "\n}\n"
		e := "e" + u + "()"
		switch w.A % nExpr {
		case 0:
			return def + e + " ?? 1"
		case 1:
			return def + "nil ?? " + e
		case 2:
			return def + "true ? " + e + " : 1"
		case 3:
			return def + "false ? 1 : " + e
		case 4:
			return def + "func id" + u + "(x) { return x }\nid" + u + "(" + e + ")"
		case 5:
			return def + "[" + e + "]"
		case 6:
			return def + "{\"k\": " + e + "}"
		case 7:
			return def + "x" + u + " = " + e
		case 8:
			return def + "func r" + u + "() { return " + e + " }\nr" + u + "()"
		case 9:
			return def + "x" + u + " = " + e + " + 1"
		case 10:
			return def + "hid(" + e + ")"
		case 11:
			return def + "len(" + e + ")"
		case 12:
			return def + e + "[0]"
		case 13:
			return def + "x" + u + " = !" + e
		case 14:
			return def + "var y" + u + " = " + e
		case 15:
			return def + e + " == 1"
		case 16:
			return def + "a" + u + ", b" + u + " = " + e + ", 2"
		case 17:
			return def + "m" + u + " = {}\nm" + u + "[" + e + "] = 1"
		case 18:
			return def + "if " + e + " { tick() }"
		case 19:
			return def + "switch " + e + " {\ncase 1:\ntick()\n}"
		case 20:
			return def + "for q" + u + " in " + e + " { tick() }"
		case 21:
			return def + "throw " + e
		case 22:
			return def + "c" + u + " = make(chan interface, 1)\nc" + u + " <- " + e
		case 23:
			return def + "close(" + e + ")"
		case 24:
			return def + "defer hid(" + e + ")"
		case 25:
			return def + "go hid(" + e + ")"
		case 26:
			return def + "(" + e + " ?? 1) ?? 2"
		case 28:
			return def + e + " ?? tick()"
		case 29:
			return def + "x" + u + " = [" + e + " ?? 1, tick()]"
		case 30:
			return def + "if false { tick() } else if " + e + " { tick() }"
		case 31:
			return def + "switch 1 {\ncase " + e + ":\ntick()\n}"
		case 32:
			return def + "x" + u + " = " + e + " > 0 ? tick() : tick()"
		case 33:
			return def + "for q" + u + " = 0; " + e + "; q" + u + "++ { tick() }"
		case 34:
			// a left side that fails by itself (not by interruption): the cancel may land on the very poll that follows it
			return def + "nosuch" + u + " ?? " + e
		case 35:
			return def + "x" + u + " = [1][5] ?? (nosuch" + u + " ?? " + e + ")"
		case 36:
			return def + "for q" + u + " = 0; q" + u + " < 3; q" + u + "++ { z" + u + " = nosuch" + u + " ?? tick() }\n" + e
		default:
			return def + "x" + u + " = 1\nx" + u + " += " + e
		}
	}
	return body
}

// Render builds the script. A trailing tick() follows the program: it can only
// run if some construct swallowed the interruption (or the generator is
// broken and the program terminates).
func Render(w *Work) string {
	body := renderCore(w.Core, "c")
	if w.Elem != "" && w.Elem != "int64" && strings.HasPrefix(w.Core, "block-") && !strings.Contains(w.Core, "fan") && !strings.Contains(w.Core, "range-") {
		// the same blocked shapes over other element types (a typed fast path may treat one type differently)
		lit := map[string]string{"float64": "1.5", "string": "\"s\"", "bool": "true", "interface": "nil"}[w.Elem]
		body = strings.ReplaceAll(body, "chan int64", "chan "+w.Elem)
		body = strings.ReplaceAll(body, " <- 1", " <- "+lit)
		body = strings.ReplaceAll(body, " <- 2", " <- "+lit)
	}
	for i := len(w.Wrappers) - 1; i >= 0; i-- {
		body = wrap(w.Wrappers[i], body, fmt.Sprint(i))
	}
	if strings.HasPrefix(w.Core, "foreign-") {
		body = "# an earlier call, under a context that is never cancelled, ran:" + strings.ReplaceAll(foreignPrelude, "\n", "\n#   ") + "\n" + body
	}
	if w.Twin > 0 {
		body = "# meanwhile a second call on the same environment, under a context of its own, runs:\n#   " +
			strings.ReplaceAll(twinPrograms[(w.Twin-1)%len(twinPrograms)], "\n", "\n#   ") + "\n" + body
	}
	if w.NoTrail {
		return body + "\n"
	}
	return body + "\ntick()\n"
}

func (w *Work) path() string {
	var ks []string
	for _, x := range w.Wrappers {
		k := x.K
		if k == "expr" {
			k = fmt.Sprintf("expr%d", x.A%nExpr)
		}
		ks = append(ks, k)
	}
	return strings.Join(ks, ">")
}

func (w *Work) defers() int {
	n := 0
	for _, x := range w.Wrappers {
		n += x.D
		if x.K == "defer" {
			n++
		}
	}
	return n
}

type Prop struct{}

func init() { harness.Register(Prop{}) }

func (Prop) ID() string { return "C02" }

func (Prop) Gen(seed int64, tier string) *harness.Case {
	r := harness.Rand(seed)
	var w Work
	w.Core = cores[r.Intn(len(cores))]
	if strings.HasPrefix(w.Core, "lib-") {
		w.LibCtx = r.Intn(4)
	}
	if strings.HasPrefix(w.Core, "foreign-close") {
		// the left-over senders are released by the close itself, so they may live under any kind of context; the
		// other foreign goroutines are released at the end of the case through their (simulated) context
		w.LibCtx = r.Intn(4)
	}
	w.Deadline = r.Intn(4) == 0
	w.Merged = r.Intn(4) == 0
	depth := r.Intn(4)
	if r.Intn(8) == 0 {
		depth = 4 + r.Intn(2)
	}
	if tier == "thorough" && r.Intn(4) == 0 {
		depth = 4 + r.Intn(5)
	}
	for i := 0; i < depth; i++ {
		wk := wrapKinds[r.Intn(len(wrapKinds))]
		x := W{K: wk.k, A: r.Intn(wk.n)}
		switch wk.k {
		case "func", "funcvar", "anon", "module":
			if r.Intn(2) == 0 {
				x.D = 1 + r.Intn(3)
			}
		}
		w.Wrappers = append(w.Wrappers, x)
	}
	// a script function invoked through a Go func type runs under
	// context.Background(): a tick-less core would never yield there and
	// could only be seen by the watchdog, so give those a ticking core.
	hostcb := false
	for _, x := range w.Wrappers {
		if x.K == "hostcallback" {
			hostcb = true
		}
	}
	if hostcb {
		if !isSpinTick(w.Core) {
			w.Core = "spin-loop"
		}
		for i := range w.Wrappers {
			// `for { defer f() }` registers deferred calls forever without
			// ever calling a host function: it would never yield under
			// context.Background()
			if w.Wrappers[i].K == "defer" && w.Wrappers[i].A%3 == 2 {
				w.Wrappers[i].A = 0
			}
			// wrappers that loop by themselves (a try inside `for` whose catch block is loop control) or that may
			// never reach the core (a finally behind a failing catch) could spin without a single host call
			if w.Wrappers[i].K == "try-body" && w.Wrappers[i].A%8 >= 5 {
				w.Wrappers[i].A = 0
			}
			if w.Wrappers[i].K == "finally" && w.Wrappers[i].A%5 >= 2 {
				w.Wrappers[i].A = 0
			}
		}
	}
	if !hostcb && r.Intn(5) == 0 {
		w.Twin = 1 + r.Intn(len(twinPrograms))
	}
	w.NoTrail = r.Intn(2) == 0
	w.Elem = []string{"int64", "int64", "float64", "string", "bool", "interface"}[r.Intn(6)]
	wb, _ := json.Marshal(w)
	var evs []harness.EventSpec
	mode := r.Intn(10)
	k := 0
	switch {
	case mode < 2:
		k = r.Intn(4)
	case mode < 6:
		k = r.Intn(40)
	default:
		k = r.Intn(250)
	}
	evs = append(evs, harness.EventSpec{Kind: "cancel", AtStep: k})
	evs = append(evs, harness.EventSpec{Kind: "cancel", AtQuiescence: true})
	if w.Core == "spin-sleep" && r.Intn(2) == 0 {
		// the fake clock only advances while nothing is runnable; the step
		// event is the fallback when another task keeps spinning
		evs = []harness.EventSpec{{Kind: "cancel", AtFakeNs: int64(1+r.Intn(40)) * int64(time.Millisecond)}, {Kind: "cancel", AtQuiescence: true},
			{Kind: "cancel", AtStep: 300 + r.Intn(100)}}
	}
	density := []int{0, 5, 20, 50}[r.Intn(4)]
	return &harness.Case{Prop: "C02", Seed: seed, Tier: tier, Workload: wb, Events: evs,
		Knobs:   map[string]int{"depth": depth, "density": density},
		Choices: harness.GenChoices(r, 600, density), Source: Render(&w)}
}

type tickRec struct {
	task     string
	step     int
	deferred bool
}

func (Prop) Run(t *testing.T, c *harness.Case, verbose bool) *harness.Result {
	return run(t, c, verbose, false)
}

// InterruptDefers is registered as "C09I": the same programs and the same injected cancellation, but
// judged only for property C09's clause that an interrupt is an exit like any other - the deferred calls
// of the invocations being left run, exactly once. The driver runs it as part of the C09 check.
type InterruptDefers struct{}

func init() { harness.Register(InterruptDefers{}) }

func (InterruptDefers) ID() string { return "C09I" }

func (InterruptDefers) Gen(seed int64, tier string) *harness.Case {
	c := Prop{}.Gen(seed, tier)
	c.Prop = "C09I"
	var w Work
	json.Unmarshal(c.Workload, &w)
	// make sure deferred host probes are pending when the cancel lands
	has := false
	for i := range w.Wrappers {
		switch w.Wrappers[i].K {
		case "func", "funcvar", "anon", "module":
			if w.Wrappers[i].D == 0 {
				w.Wrappers[i].D = 1 + int(seed%3)
			}
			has = true
		}
	}
	if !has {
		w.Wrappers = append(w.Wrappers, W{K: "func", A: int(seed % 7), D: 1 + int(seed%3)})
	}
	c.Workload, _ = json.Marshal(w)
	c.Source = Render(&w)
	return c
}

func (InterruptDefers) Run(t *testing.T, c *harness.Case, verbose bool) *harness.Result {
	return run(t, c, verbose, true)
}

func (InterruptDefers) Shrink(c *harness.Case) []*harness.Case { return Prop{}.Shrink(c) }

func (InterruptDefers) StripKnown(c *harness.Case) (*harness.Case, bool) { return Prop{}.StripKnown(c) }

func run(t *testing.T, c *harness.Case, verbose bool, onlyDefers bool) *harness.Result {
	var w Work
	res := &harness.Result{Counters: map[string]int{}}
	if err := json.Unmarshal(c.Workload, &w); err != nil {
		res.Inconclusive = "bad workload"
		return res
	}
	src := Render(&w)
	stmt, err := parser.ParseSrc(src)
	if err != nil {
		res.Inconclusive = "generator produced a script that does not parse: " + err.Error() + "\n" + src
		return res
	}
	depth := len(w.Wrappers)
	ndef := w.defers()
	var sim *simrt.Sim
	var ctx *simrt.Ctx
	var mu sync.Mutex
	var ticks []tickRec
	dticks, dmarks, dpres := map[int64]int{}, map[int64]int{}, map[int64]int{}
	var mainErr error
	var mainDone bool
	var mainTask *simrt.Task
	var fake time.Duration
	bound := 0
	cancelAt := -1
	leaked := harness.Bubble(t, func() {
		sim = simrt.New(c.Choices, 2500)
		ctx = sim.NewCtx()
		if w.Deadline {
			ctx.FarDeadline = time.Now().Add(time.Hour)
		}
		if w.Merged {
			live, stop := context.WithCancel(context.Background())
			defer stop()
			ctx.ValueParent = live
		}
		e := env.NewEnv()
		rec := func(deferred bool) {
			tk := simrt.CurTask()
			simrt.Yield("tick")
			id := "?"
			if tk != nil {
				id = tk.ID
			}
			mu.Lock()
			ticks = append(ticks, tickRec{id, sim.Step, deferred})
			mu.Unlock()
		}
		e.Define("tick", func() { rec(false) })
		e.Define("dtick", func(id int64) {
			rec(true)
			mu.Lock()
			dticks[id]++
			mu.Unlock()
		})
		e.Define("dmark", func(id int64) {
			mu.Lock()
			dmarks[id]++
			mu.Unlock()
		})
		e.Define("dpre", func(id int64) {
			mu.Lock()
			dpres[id]++
			mu.Unlock()
		})
		e.Define("hid", func(x interface{}) interface{} { simrt.Yield("host"); return x })
		e.Define("boom", func() { simrt.Yield("host"); panic("boom") })
		e.Define("sleep", func(ms int64) { simrt.Sleep(time.Duration(ms) * time.Millisecond) })
		e.Define("call", func(f func()) { simrt.Yield("host"); f() })
		e.Define("call1", func(f func(interface{})) { simrt.Yield("host"); f(int64(1)) })
		cancel := func(s *simrt.Sim) {
			if ctx.Cancelled() {
				return
			}
			harness.Beat("cancel-delivered")
			ntasks := 0
			for _, tk := range s.Tasks() {
				if tk.State() != simrt.Done {
					ntasks++
				}
			}
			if ntasks < 1 {
				ntasks = 1
			}
			// every deferred call registered before the cancel must still run (and be
			// interrupted at its first poll): at most one registration per step so far,
			// at most ~10 steps each. A script that ignores the cancel exceeds any bound.
			bound = (60+16*ndef+10*depth)*ntasks + 10*s.Step
			s.MaxSteps = s.Step + bound
			ctx.Cancel()
			cancelAt = ctx.CancelAt
		}
		for _, ev := range c.Events {
			if ev.Kind != "cancel" {
				continue
			}
			sim.Events = append(sim.Events, &simrt.Event{AtStep: ev.AtStep, AtQuiescence: ev.AtQuiescence,
				AtIdleTime: time.Duration(ev.AtFakeNs), Name: "cancel", Do: cancel})
		}
		var others []*simrt.Ctx // contexts of the parties that are not judged; cancelled only when the case is over
		otherCtx := func() *simrt.Ctx {
			c := sim.NewCtx()
			mu.Lock()
			others = append(others, c)
			mu.Unlock()
			return c
		}
		mainTask = sim.Spawn("main", func() {
			pre := ""
			switch {
			case strings.HasPrefix(w.Core, "lib-"):
				pre = prelude
			case strings.HasPrefix(w.Core, "foreign-"):
				pre = foreignPrelude
			}
			if pre != "" {
				// an earlier, completed run under another context defined the library / left goroutines behind
				var perr error
				switch w.LibCtx % 4 {
				case 0:
					_, perr = vm.ExecuteContext(otherCtx(), e, &vm.Options{Debug: false}, pre)
				case 1:
					_, perr = vm.ExecuteContext(context.Background(), e, &vm.Options{Debug: false}, pre)
				case 2:
					_, perr = vm.Execute(e, &vm.Options{Debug: false}, pre)
				default:
					_, perr = vm.Execute(e, nil, pre)
				}
				if perr != nil {
					mainErr = perr
					mainDone = true
					return
				}
				// whatever that run started belongs to it, not to the call that is about to be cancelled
				me := simrt.CurTask()
				for _, tk := range sim.Tasks() {
					if tk != me && strings.HasPrefix(tk.ID, "main.") {
						tk.Daemon = true
						sim.Count("foreign_goroutines_left_behind")
					}
				}
			}
			_, mainErr = vm.RunContext(ctx, e, &vm.Options{Debug: false}, stmt)
			mainDone = true
		})
		if w.Twin > 0 {
			twinSrc := twinPrograms[(w.Twin-1)%len(twinPrograms)]
			tw := sim.Spawn("twin", func() {
				vm.ExecuteContext(otherCtx(), e, &vm.Options{Debug: false}, twinSrc)
			})
			tw.Daemon = true
		}
		res.Outcome = sim.Run()
		fake = sim.FakeElapsed()
		sim.Teardown(func() {
			ctx.Cancel()
			for _, c := range others {
				c.Cancel()
			}
		})
	})
	res.Leaked = leaked
	res.Steps, res.Switches, res.Contended = sim.Step, sim.Switches, sim.Contended
	tasks := sim.Tasks()
	res.Tasks = len(tasks)
	res.FakeNs = int64(fake)
	res.LogHash = fmt.Sprintf("%016x", sim.LogHash())
	for k, v := range sim.Counters {
		res.Counters[k] = v
	}
	fired := strings.Join(sim.FiredEvts, ",")
	res.Shape = harness.HashStrings(string(c.Workload), res.LogHash, fired)
	res.Counters["ticks"] = len(ticks)
	if verbose {
		res.Log = append(res.Log, "source:\n"+src)
		for _, e := range sim.Log {
			res.Log = append(res.Log, fmt.Sprintf("%d %s %s", e.Step, e.Task, e.Kind))
		}
		res.Log = append(res.Log, "events: "+fired, fmt.Sprintf("main done=%v err=%v", mainDone, mainErr))
	}
	sig := fmt.Sprintf("path=%s core=%s", w.path(), w.Core)
	if w.Twin > 0 {
		sig += fmt.Sprintf(" twin=%d", w.Twin)
		res.Counters["second_call_on_the_same_environment"]++
	}

	if cancelAt < 0 {
		// the program ended before any cancel instant: nothing to decide
		res.Counters["finished_before_cancel"]++
		if res.Outcome != "done" {
			res.Inconclusive = "no cancel was delivered but outcome is " + res.Outcome
		}
		return res
	}
	res.Nontrivial = true
	res.Counters["cancel_delivered"]++
	for _, ev := range sim.FiredEvts {
		if strings.HasPrefix(ev, "cancel@") {
			if cancelAt == 0 {
				res.Counters["cancel_before_first_statement"]++
			}
		}
	}
	// where did the cancel land?
	nblocked := 0
	for _, tk := range tasks {
		if tk.ObservedBlocked {
			nblocked++
		}
	}
	if nblocked > 0 {
		res.Counters["cancel_while_blocked_in_channel_op"]++
	}
	if nblocked > 1 {
		res.Counters["cancel_at_quiescence_with_several_blocked_tasks"]++
	}
	if len(tasks) > 1 {
		res.Counters["cancel_with_script_goroutines"]++
	}
	res.Counters["steps_after_cancel_max"] = 0
	after := sim.Step - cancelAt
	res.Counters["steps_after_cancel_sum"] = after

	if onlyDefers {
		// C09 clause only; whether the script stops at all is C02's business, so an unfinished run is not judged here
		if res.Outcome != "done" {
			res.Counters["not_judged_script_did_not_stop"]++
			return res
		}
		for id, hi := range dpres {
			n := dmarks[id]
			res.Counters["deferred_probes_owed"] += n
			if hi != n {
				res.Counters["interrupt_landed_inside_a_defer_registration"]++
			}
			if dticks[id] < n || dticks[id] > hi {
				res.Violation = "deferred-calls-lost-on-interrupt"
				res.Detail = fmt.Sprintf("`defer dtick(%d)` was registered between %d and %d time(s) before the interrupt but ran %d time(s) by the time every task had finished\n%s", id, n, hi, dticks[id], src)
				res.Signature = "deferred-calls-lost-on-interrupt " + sig
				return res
			}
		}
		return res
	}
	for _, v := range sim.Viol {
		res.Violation = v.Class
		res.Detail = v.Detail + "\n" + src
		res.Signature = v.Class + " " + sig
		return res
	}
	// O1
	if res.Outcome != "done" {
		var live []string
		for _, tk := range tasks {
			if (tk.Killed || tk.FinishedStep < 0) && !tk.Daemon {
				live = append(live, tk.ID)
			}
		}
		res.Violation = "cancel-ignored"
		res.Detail = fmt.Sprintf("cancel delivered at step %d; %d steps later (bound %d) tasks %v are still running or blocked (outcome %s)\n%s",
			cancelAt, after, bound, live, res.Outcome, src)
		res.Signature = "cancel-ignored " + sig
		return res
	}
	// O3
	obs := map[string]int{}
	for _, tk := range tasks {
		if tk.ObservedCancelStep >= 0 {
			obs[tk.ID] = tk.ObservedCancelStep
		}
	}
	for _, tr := range ticks {
		if s, ok := obs[tr.task]; ok && !tr.deferred && tr.step > s {
			res.Violation = "ran-after-interrupt"
			res.Detail = fmt.Sprintf("task %s observed the cancellation at step %d and still executed tick() at step %d\n%s", tr.task, s, tr.step, src)
			res.Signature = "ran-after-interrupt " + sig
			return res
		}
	}
	// O2
	if mainTask.ObservedCancelStep >= 0 {
		if mainErr == nil || mainErr.Error() != "execution interrupted" {
			res.Violation = "interrupt-swallowed"
			res.Detail = fmt.Sprintf("main observed the cancellation at step %d but RunContext returned error %v\n%s", mainTask.ObservedCancelStep, mainErr, src)
			res.Signature = "interrupt-swallowed " + sig
			return res
		}
		res.Counters["main_returned_interrupted"]++
	} else {
		res.Counters["main_never_observed"]++
	}
	res.Counters["steps_after_cancel_max"] = after
	return res
}

func (Prop) Shrink(c *harness.Case) []*harness.Case {
	var w Work
	if json.Unmarshal(c.Workload, &w) != nil {
		return nil
	}
	var out []*harness.Case
	emit := func(nw Work, evs []harness.EventSpec) {
		d := c.Clone()
		d.Workload, _ = json.Marshal(nw)
		d.Events = evs
		d.Source = Render(&nw)
		out = append(out, d)
	}
	for i := range w.Wrappers {
		nw := w
		nw.Wrappers = append(append([]W{}, w.Wrappers[:i]...), w.Wrappers[i+1:]...)
		emit(nw, c.Events)
	}
	for i, x := range w.Wrappers {
		if x.D > 0 {
			nw := w
			nw.Wrappers = append([]W{}, w.Wrappers...)
			nw.Wrappers[i].D = 0
			emit(nw, c.Events)
		}
		if x.A > 0 && x.K != "expr" && x.K != "go" {
			nw := w
			nw.Wrappers = append([]W{}, w.Wrappers...)
			nw.Wrappers[i].A = 0
			emit(nw, c.Events)
		}
	}
	if w.Twin > 0 {
		nw := w
		nw.Twin = 0
		emit(nw, c.Events)
		if w.Twin > 1 {
			nw.Twin = 1
			emit(nw, c.Events)
		}
	}
	if w.Core != "spin-loop" && strings.HasPrefix(w.Core, "spin-") {
		nw := w
		nw.Core = "spin-loop"
		emit(nw, c.Events)
	}
	if w.Core != "block-recv-expr" && strings.HasPrefix(w.Core, "block-") {
		nw := w
		nw.Core = "block-recv-expr"
		emit(nw, c.Events)
	}
	for i, ev := range c.Events {
		if ev.AtStep > 0 {
			for _, k := range []int{0, ev.AtStep / 2, ev.AtStep - 1} {
				evs := append([]harness.EventSpec{}, c.Events...)
				evs[i].AtStep = k
				emit(w, evs)
			}
		}
	}
	return out
}

// StripKnown removes the construct behind the recorded known finding (a script
// function invoked through a Go func type runs under context.Background()), so
// that a violation which does not depend on it is still reported as new.
func (Prop) StripKnown(c *harness.Case) (*harness.Case, bool) {
	var w Work
	if json.Unmarshal(c.Workload, &w) != nil {
		return nil, false
	}
	var keep []W
	found := false
	for _, x := range w.Wrappers {
		if x.K == "hostcallback" {
			found = true
			continue
		}
		keep = append(keep, x)
	}
	if !found {
		return nil, false
	}
	w.Wrappers = keep
	d := c.Clone()
	d.Workload, _ = json.Marshal(w)
	d.Source = Render(&w)
	return d, true
}
