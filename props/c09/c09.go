// Package c09: errors reach the nearest try; deferred calls run exactly once,
// LIFO, on every exit.
//
// The workload is a program rendered from a small IR; the simulator decides
// WHICH HOST CALL FAILS (the k-th call of the probe functions panics with a
// string / an error / another value / a genuine runtime error, or returns an
// error result). An executable reference semantics over the IR (not over
// anko's AST) yields the expected probe trace, result value and error.
//
// Deliberately unspecified (two readings accepted): whether `finally` runs when
// `catch` itself fails or returns. The generator never puts return / break /
// continue where they would cross a try body (the unedited suite pins that
// these are routed to catch, which the property text does not cover).
package c09

import (
	"context"
	"encoding/json"
	"errors"
	"fmt"
	"reflect"
	"strconv"
	"strings"
	"testing"

	"github.com/mattn/anko/env"
	"github.com/mattn/anko/parser"
	"github.com/mattn/anko/vm"

	"verifsim/harness"
)

type Node struct {
	K       string  `json:"k"`
	ID      int     `json:"id,omitempty"`
	N       int     `json:"n,omitempty"`
	Val     int     `json:"val,omitempty"`
	Msg     string  `json:"msg,omitempty"`
	Cond    string  `json:"cond,omitempty"` // true | false | eq:<loopID>:<k>
	Var     bool    `json:"var,omitempty"`
	Shared  bool    `json:"shared,omitempty"` // the catch variable is called `e`, like an outer variable and like enclosing catch variables
	Body    []*Node `json:"body,omitempty"`
	Catch   []*Node `json:"catch,omitempty"`
	Finally []*Node `json:"finally,omitempty"`
	HasFin  bool    `json:"hasfin,omitempty"`
	Edit    bool    `json:"edit,omitempty"` // the catch block decorates the caught error in place (an error value belongs to the one raise that produced it)
	Else    []*Node `json:"else,omitempty"`
}

type Work struct {
	Prog []*Node `json:"prog"`
	Tail int     `json:"tail"` // literal final statement (0 = none)
}

// ---------------------------------------------------------------------------
// rendering

func indentJoin(ss []string) string { return strings.Join(ss, "\n") }

func renderList(ns []*Node) string {
	var out []string
	for _, n := range ns {
		out = append(out, render(n))
	}
	return indentJoin(out)
}

func argList(n int) (string, string) {
	var ps, as []string
	for i := 0; i < n; i++ {
		ps = append(ps, "a"+strconv.Itoa(i))
		as = append(as, strconv.Itoa(i+1))
	}
	return strings.Join(ps, ", "), strings.Join(as, ", ")
}

const nMulti = 12

func render(n *Node) string {
	id := strconv.Itoa(n.ID)
	switch n.K {
	case "probe":
		return "p(" + id + ")"
	case "gopanic":
		// a script function (one to four parameters, first argument not a literal) whose body fails INSIDE Go, past every
		// check of the interpreter (a length no slice can have: refused before anything is allocated): for the CALLER that
		// is an error of the call expression like any other, raised once
		ps, as := "a", "gv" + id
		switch n.N % 4 {
		case 1:
			ps, as = "a, b", "gv"+id+", 2"
		case 2:
			ps, as = "a, b, c", "gv"+id+", 2, 3"
		case 3:
			ps, as = "a, b, c, d", "gv"+id+", p("+strconv.Itoa(n.Val)+"), 3, 4"
		}
		return "func gp" + id + "(" + ps + ") {\np(" + id + ")\nmake([]int64, 4611686018427387904)\n}\ngv" + id + " = " + id + "\ngp" + id + "(" + as + ")"
	case "func":
		ps, as := argList(n.N)
		return "func f" + id + "(" + ps + ") {\n" + renderList(n.Body) + "\n}\nf" + id + "(" + as + ")"
	case "callrec":
		ps, as := argList(n.N)
		return "func f" + id + "(" + ps + ") {\n" + renderList(n.Body) + "\n}\npv(" + id + ", f" + id + "(" + as + "))"
	case "funcvar":
		return "func f" + id + "(a, b...) {\n" + renderList(n.Body) + "\n}\nf" + id + "(1, 2, 3)"
	case "anoncall":
		return "func() {\n" + renderList(n.Body) + "\n}()"
	case "try":
		s := "try {\n" + renderList(n.Body) + "\n} catch"
		ev := "e" + id
		if n.Shared {
			ev = "e"
		}
		if n.Var {
			s += " " + ev
		}
		s += " {\n"
		if n.Var {
			s += "pv(" + id + ", " + ev + ")\n"
		}
		if n.Var && n.Edit {
			// (in a try of its own: not every caught value has a Message field)
			s += "try { " + ev + ".Message = \"ed \" + " + ev + ".Message } catch { }\n"
		}
		s += renderList(n.Catch) + "\n}"
		if n.HasFin {
			s += " finally {\n" + renderList(n.Finally) + "\n}"
		}
		return s
	case "defer-probe":
		return "defer p(" + id + ")"
	case "defer-nested":
		// the deferred literal is created two blocks deep and uses a variable of the block in between; more block
		// statements follow before the invocation ends
		v := strconv.Itoa(n.Val)
		if n.Var {
			return "try {\ntv" + id + " = 0\nif true {\ndefer func() { pv(" + id + ", tv" + id + ") }()\n}\ntv" + id + " = " + v + "\n} catch ee" + id + " { }\nif true { zz" + id + " = 1 }\nfor zk" + id + " in [1] { zy" + id + " = zk" + id + " }"
		}
		return "for c" + id + " = 0; c" + id + " < 2; c" + id + "++ {\nbv" + id + " = " + v + "\nif c" + id + " == 1 {\ndefer func() { pv(" + id + ", bv" + id + ") }()\n}\n}\nif true { zz" + id + " = 1 }\nswitch 1 {\ncase 1:\nzy" + id + " = 2\n}"
	case "defer-anonarg":
		// an argument of the deferred (or anonymous) call is itself an anonymous call
		v := strconv.Itoa(n.Val)
		switch n.N % 4 {
		case 0:
			return "defer pv(func(a, b) { return a }(" + id + ", 2), " + v + ")"
		case 1:
			return "defer func(x, y) { pv(x, y) }(func(a, b) { return a }(" + id + ", 2), " + v + ")"
		case 2:
			return "[pv][0](func(a, b) { return a }(" + id + ", 2), " + v + ")"
		}
		return "defer pv(func(a) { return a }(" + id + "), " + v + ")"
	case "defer-arg":
		return "x" + id + " = " + strconv.Itoa(n.Val) + "\ndefer pv(" + id + ", x" + id + ")\nx" + id + " = " + strconv.Itoa(n.Val+1)
	case "defer-callarg":
		// the argument of the deferred call is itself a call (or an expression) that can fail: a defer
		// statement that fails registers nothing
		switch n.N % 4 {
		case 1:
			return "defer pv(" + id + ", [1, 2][5])"
		case 2:
			// an element that is nil: the deferred call gets nil, like any other call
			return "na" + id + " = [nil, 2]\ndefer pv(" + id + ", na" + id + "[0])\nna" + id + "[0] = 1"
		case 3:
			return "defer pv(" + id + ", hostnil)"
		}
		return "defer pv(" + id + ", p(" + strconv.Itoa(n.Val) + "))"
	case "defer-anon":
		return "defer func() {\n" + renderList(n.Body) + "\n}()"
	case "defer-named":
		params, call, pre := "a", "d"+id+"(y"+id+")", ""
		switch n.N % 4 {
		case 1:
			params, call = "a, b, c, d, e", "d"+id+"(y"+id+", 2, 3, 4, 5)"
		case 2:
			params, call = "a, r...", "d"+id+"(y"+id+", 1, 2)"
		case 3:
			params, call = "r...", "d"+id+"([y"+id+", 7]...)"
			pre = "a = r[0]\n"
		}
		return "func d" + id + "(" + params + ") {\n" + pre + "pv(" + id + ", a)\n" + renderList(n.Body) + "\n}\ny" + id + " = " + strconv.Itoa(n.Val) +
			"\ndefer " + call + "\ny" + id + " = " + strconv.Itoa(n.Val+1)
	case "loop":
		return "for i" + id + " = 0; i" + id + " < " + strconv.Itoa(n.N) + "; i" + id + "++ {\n" + renderList(n.Body) + "\n}"
	case "forin":
		var items []string
		for i := 0; i < n.N; i++ {
			items = append(items, strconv.Itoa(i))
		}
		return "for i" + id + " in [" + strings.Join(items, ", ") + "] {\n" + renderList(n.Body) + "\n}"
	case "if":
		c := n.Cond
		if strings.HasPrefix(c, "eq:") {
			parts := strings.Split(c, ":")
			c = "i" + parts[1] + " == " + parts[2]
		}
		s := "if " + c + " {\n" + renderList(n.Body) + "\n}"
		if len(n.Else) > 0 {
			s += " else {\n" + renderList(n.Else) + "\n}"
		}
		return s
	case "ret":
		return "return " + strconv.Itoa(n.Val)
	case "throw":
		return "throw \"" + n.Msg + "\""
	case "rethrow":
		return "throw e" + strconv.Itoa(n.N)
	case "rterr":
		return rterrSrc(n.N, id)
	case "break":
		return "break"
	case "continue":
		return "continue"
	case "stray":
		// break / continue with no loop around it in this invocation: an error like any other, it ends the
		// invocation and must not be taken for loop control by a loop of the caller
		if n.N%2 == 0 {
			return "break"
		}
		return "continue"
	case "ifchain":
		// conditions that are host calls: a failing condition is a failing statement, whichever arm it guards
		return "if p(" + id + ") != nil {\n" + renderList(n.Body) + "\n} else if p(" + strconv.Itoa(n.N) + ") != nil {\n" + renderList(n.Catch) + "\n} else {\n" + renderList(n.Else) + "\n}"
	case "logic":
		// both operands of a logical operator are host calls and the left one never decides alone (false for ||,
		// true for &&): a failing left operand is a failing statement, the right operand must not run after it
		a, b := "pv("+id+", 0)", "pv("+strconv.Itoa(n.N)+", 0)"
		switch n.Val % 4 {
		case 0:
			return "lg" + id + " = " + a + " == 1 || " + b + " == 1"
		case 1:
			return "lg" + id + " = " + a + " != 1 && " + b + " != 1"
		case 2:
			return "if " + a + " == 1 || " + b + " == 1 {\npv(" + id + ", \"wrong arm\")\n}"
		}
		return "for " + a + " != 1 && " + b + " == 1 {\npv(" + id + ", \"wrong arm\")\nbreak\n}"
	case "switchc":
		// case expressions that are host calls (none of them yields the switch value): a failing case expression is
		// a failing statement - no later case expression, no clause body, no default block runs after it
		dflt := ""
		if !n.Var {
			dflt = "default:\n" + renderList(n.Body) + "\n"
		}
		return "switch 7 {\ncase pv(" + id + ", 0):\npv(" + id + ", \"wrong case\")\ncase pv(" + strconv.Itoa(n.N) + ", 0):\npv(" + id + ", \"wrong case\")\n" + dflt + "}"
	case "whilec":
		if n.Var {
			return "for k" + id + " = 0; p(" + id + ") != nil; k" + id + "++ {\n" + renderList(n.Body) + "\nbreak\n}"
		}
		return "for p(" + id + ") != nil {\n" + renderList(n.Body) + "\nbreak\n}"
	case "callback":
		// a script function handed to a Go function and called back from there, n.N times
		if n.Val == 1 {
			// the Go side wants func(int64) error and looks at that error itself: a script error inside the
			// callback is still the script's error, it does not become a return value the host may ignore
			return "hce(" + strconv.Itoa(n.N) + ", func(q" + id + ") {\n" + renderList(n.Body) + "\nreturn nil\n})"
		}
		if n.Var {
			return "hcr(" + strconv.Itoa(n.N) + ", func(q" + id + ") {\n" + renderList(n.Body) + "\nreturn 7\n})"
		}
		return "hcb(" + strconv.Itoa(n.N) + ", func(q" + id + ") {\n" + renderList(n.Body) + "\n})"
	case "module":
		// a module body runs as part of the enclosing invocation: its deferred calls belong to that invocation
		return "module M" + id + " {\n" + renderList(n.Body) + "\n}"
	case "switch":
		if n.N%2 == 0 {
			return "switch " + id + " {\ncase " + id + ":\n" + renderList(n.Body) + "\n}"
		}
		return "switch " + id + " {\ncase 0:\npv(" + id + ", \"wrong case\")\ndefault:\n" + renderList(n.Body) + "\n}"
	case "recdefer":
		// a warm-up call, then recursion: every invocation's deferred call runs once, with its own argument
		warm := ""
		if n.Var {
			warm = "w" + id + "(0)\n"
		}
		return "func w" + id + "(n) {\ndefer pv(" + id + ", n)\nif n > 0 { w" + id + "(n - 1) }\np(" + strconv.Itoa(n.Val) + ")\n}\n" + warm + "w" + id + "(" + strconv.Itoa(n.N) + ")"
	case "show-e":
		return "pv(" + id + ", e)"
	case "defer-loopvar":
		id2 := strconv.Itoa(n.N)
		return "func ga" + id + "(x) { pv(" + id + ", x) }\nfunc gb" + id + "(x) { pv(" + id2 + ", x) }\nfor c" + id + " in [ga" + id + ", gb" + id + "] { defer c" + id + "(" + strconv.Itoa(n.Val) + ") }"
	case "retvar":
		v := strconv.Itoa(n.Val)
		return "func f" + id + "() {\nr" + id + " = " + v + "\ndefer func() { r" + id + " = " + v + " + 1; return 7 }()\nreturn r" + id + "\n}\npv(" + id + ", f" + id + "())"
	case "multi":
		var defs, es, names []string
		for i, it := range n.Body {
			iid := strconv.Itoa(it.ID)
			if it.K == "fcall" {
				defs = append(defs, "func f"+iid+"() {\n"+renderList(it.Body)+"\n}")
				es = append(es, "f"+iid+"()")
			} else {
				es = append(es, "p("+iid+")")
			}
			names = append(names, "m"+id+"_"+strconv.Itoa(i))
		}
		pre := ""
		if len(defs) > 0 {
			pre = strings.Join(defs, "\n") + "\n"
		}
		switch n.N % nMulti {
		case 5:
			return pre + "if " + es[0] + " == " + es[1] + " { }"
		case 6:
			return pre + "switch " + es[0] + " {\ncase " + es[1] + ":\n}"
		case 7:
			return pre + "for q" + id + " in [" + strings.Join(es, ", ") + "] { }"
		case 8:
			return pre + "func mr" + id + "() { return " + strings.Join(es, ", ") + " }\nmr" + id + "()"
		case 9:
			return pre + "m" + id + " = " + es[0] + " ?? " + es[1]
		case 11:
			// a two-value lookup whose container and index are sub-expressions that may fail
			return pre + "mm" + id + " = {\"k\": 1}\n" + names[0] + ", " + names[1] + " = [mm" + id + ", " + es[0] + "][0][" + es[1] + "]"
		case 10:
			// a script function with exactly as many parameters as arguments (the direct call path)
			var ps []string
			for i := range es {
				ps = append(ps, "q"+strconv.Itoa(i))
			}
			return pre + "func s" + id + "(" + strings.Join(ps, ", ") + ") { p(" + id + ") }\ns" + id + "(" + strings.Join(es, ", ") + ")"
		case 0:
			return pre + strings.Join(names, ", ") + " = " + strings.Join(es, ", ")
		case 1:
			return pre + "var " + strings.Join(names, ", ") + " = " + strings.Join(es, ", ")
		case 2:
			return pre + "m" + id + " = [" + strings.Join(es, ", ") + "]"
		case 3:
			var kv []string
			for i, e := range es {
				kv = append(kv, "\"k"+strconv.Itoa(i)+"\": "+e)
			}
			return pre + "m" + id + " = {" + strings.Join(kv, ", ") + "}"
		default:
			return pre + "p2(" + id + ", " + strings.Join(es, ", ") + ")"
		}
	}
	return "p(0)"
}

func Render(w *Work) string {
	s := "e = 777\n" + renderList(w.Prog)
	if w.Tail != 0 {
		s += "\n" + strconv.Itoa(w.Tail)
	}
	return s + "\n"
}

// ---------------------------------------------------------------------------
// reference semantics

const anyMsg = "\x00any"

type sig struct {
	kind int // 0 normal, 1 error, 2 return, 3 break, 4 continue
	msg  string
	val  interface{} // return value; unspecified = anyVal
}

// policy selects one reading at each point the property leaves open.
type policy struct {
	finAfterFail bool // finally runs although catch failed / returned
	ctrlToCatch  bool // return/break/continue inside a try body are delivered to catch (what the suite pins) instead of passing through
	finOnCtrl    bool // when they pass through, finally runs on the way out
}

type anyValT struct{}

var anyVal = anyValT{}

type frame struct {
	defers []func() sig
}

type model struct {
	calls       int
	faults      map[int]string
	trace       []string
	pol         policy
	ambiguous   bool // the run passed through the unspecified point "finally after a failing catch"
	ambiguousCF bool // the run passed through the unspecified point "control flow leaving a try body"
	loopIdx     map[int]int
	catchMsg    map[int]string
	sharedE     []string // values of the variable `e`, innermost last (bottom: the top-level binding)
	fired       map[string]int
}

// rterrForms: statements that fail at run time on their own - every one of them is an ordinary script error (never a Go
// panic) and aborts to the nearest try like a throw. %s is replaced by the node's id (fresh names).
var rterrForms = []string{
	"[1, 2][5]",
	"nope%s",
	"7 %% 0",
	"z%s = 1\nz%s()",
	"7 %% 0.5",
	"7 %% \"0\"",
	"7 %% false",
	"7 %% nil",
	"mq%s = {\"k\": 1}\nvq%s, okq%s = mq%s[[1, 2][5]]",
	"aq%s = [1]\naq%s[2:1]",
	"sq%s = \"abc\"\nsq%s[5]",
	"nil.x",
	"xq%s = 1\nxq%s.y = 2",
	"make(nosuch%s)",
	"fq%s = func(a) { }\nfq%s()",
	"len(1)",
	"hq%s = {}\nhq%s[[1]] = 1",
	"<-1",
	"1 <- 1",
	"close(1)",
	"for xq%s in 1 { }",
	"import(\"nosuch\")",
	"*1",
	"delete(1)",
	"uq%s++",
	"wq%s = [1, 2]\nvw%s, okw%s = wq%s[5]",
	"cq%s = make(chan int64, 1)\ncq%s <- 1\nbq%s = [1]\nvc%s, bq%s[5] = <-cq%s",
	"cr%s = make(chan int64, 1)\nclose(cr%s)\nvr%s, nosuch%s.x = <-cr%s",
}

// knownRecvOkForm is the index of the form behind the recorded known finding of this property (known_findings.json): a
// two-value receive statement that RECEIVES a value ignores an error of its ok target - the unedited suite pins that
// (`b, 1++ = <- a` is expected to succeed), so it cannot be repaired here.
const knownRecvOkForm = 26

func hasKnownForm(ns []*Node) bool {
	for _, n := range ns {
		if n == nil {
			continue
		}
		if n.K == "rterr" && n.N%len(rterrForms) == knownRecvOkForm {
			return true
		}
		if hasKnownForm(n.Body) || hasKnownForm(n.Catch) || hasKnownForm(n.Finally) || hasKnownForm(n.Else) {
			return true
		}
	}
	return false
}

func stripKnownForm(ns []*Node) {
	for _, n := range ns {
		if n == nil {
			continue
		}
		if n.K == "rterr" && n.N%len(rterrForms) == knownRecvOkForm {
			n.N = 0
		}
		stripKnownForm(n.Body)
		stripKnownForm(n.Catch)
		stripKnownForm(n.Finally)
		stripKnownForm(n.Else)
	}
}

// StripKnown returns the case with every statement of the known form replaced by another failing statement.
func (Prop) StripKnown(c *harness.Case) (*harness.Case, bool) {
	var w Work
	if json.Unmarshal(c.Workload, &w) != nil || !hasKnownForm(w.Prog) {
		return nil, false
	}
	stripKnownForm(w.Prog)
	d := c.Clone()
	d.Workload, _ = json.Marshal(w)
	d.Source = Render(&w)
	return d, true
}

func rterrSrc(n int, id string) string {
	f := rterrForms[n%len(rterrForms)]
	k := strings.Count(f, "%s")
	args := make([]interface{}, k)
	for i := range args {
		args[i] = id
	}
	return fmt.Sprintf(f, args...)
}

// subMsg marks an expected message that must be CONTAINED in the actual one: how the text of a Go
// panic is turned into the script error's text is not specified (a prefix or wrapping is fine)
const subMsg = "\x00sub:"

func faultMsg(kind string, k int) string {
	switch kind {
	case "panic-string":
		if k%5 == 4 {
			return subMsg + ownTexts[(k/5)%len(ownTexts)]
		}
		return subMsg + "boom" + strconv.Itoa(k)
	case "panic-error":
		if k%5 == 3 {
			return subMsg + ownTexts[(k/5)%len(ownTexts)]
		}
		return subMsg + "errboom" + strconv.Itoa(k)
	case "panic-value":
		return subMsg + strconv.Itoa(1000+k)
	case "panic-unhashable":
		return subMsg + "listboom" + strconv.Itoa(k)
	case "runtime-error":
		return anyMsg
	}
	return ""
}

// host models one call of a probe function; entry is its trace record.
func (m *model) host(entry string) sig {
	m.calls++
	m.trace = append(m.trace, entry)
	if f, ok := m.faults[m.calls]; ok {
		m.fired[f]++
		if f != "error-result" {
			return sig{kind: 1, msg: faultMsg(f, m.calls)}
		}
	}
	return sig{}
}

func (m *model) list(ns []*Node, fr *frame) sig {
	for _, n := range ns {
		if s := m.exec(n, fr); s.kind != 0 {
			return s
		}
	}
	return sig{}
}

// call runs body as a new invocation: its defers run when it ends, LIFO; they
// do not alter the result, and an error they raise surfaces only if the body
// did not fail.
func (m *model) call(body func(fr *frame) sig) sig {
	fr := &frame{}
	res := body(fr)
	if res.kind == 3 || res.kind == 4 {
		// break/continue never escape an invocation in generated programs
		res = sig{kind: 1, msg: anyMsg}
	}
	for i := len(fr.defers) - 1; i >= 0; i-- {
		d := fr.defers[i]()
		if d.kind == 1 && res.kind != 1 {
			res = sig{kind: 1, msg: d.msg}
		}
	}
	if res.kind == 2 {
		return sig{kind: 0, val: res.val}
	}
	if res.kind == 0 {
		res.val = anyVal // value of the last statement: not specified by this oracle
	}
	return res
}

func fmtVal(v interface{}) string {
	if v == anyVal {
		return "*"
	}
	return fmt.Sprint(v)
}

func (m *model) exec(n *Node, fr *frame) sig {
	id := strconv.Itoa(n.ID)
	switch n.K {
	case "probe":
		return m.host("p:" + id)
	case "gopanic":
		if n.N%4 == 3 {
			if s := m.host("p:" + strconv.Itoa(n.Val)); s.kind != 0 {
				return s
			}
		}
		return m.call(func(f *frame) sig {
			if s := m.host("p:" + id); s.kind != 0 {
				return s
			}
			return sig{kind: 1, msg: anyMsg}
		})
	case "func", "funcvar", "anoncall":
		r := m.call(func(f *frame) sig { return m.list(n.Body, f) })
		if r.kind == 1 {
			return r
		}
		return sig{}
	case "callrec":
		r := m.call(func(f *frame) sig { return m.list(n.Body, f) })
		if r.kind == 1 {
			return r
		}
		return m.host("v:" + id + ":" + fmtVal(r.val))
	case "try":
		s := m.list(n.Body, fr)
		if s.kind == 1 {
			m.catchMsg[n.ID] = s.msg
			var sc sig
			mm := s.msg
			if mm == anyMsg {
				mm = "*"
			}
			if n.Var && n.Shared {
				// a fresh binding of `e` in the try's own scope: enclosing bindings are untouched
				m.sharedE = append(m.sharedE, mm)
			}
			if n.Var {
				sc = m.host("v:" + id + ":" + mm)
			}
			if n.Var && n.Edit {
				// what the decorated error reads like afterwards is not modelled (only that no OTHER raise sees it)
				m.catchMsg[n.ID] = anyMsg
				if n.Shared && len(m.sharedE) > 0 {
					m.sharedE[len(m.sharedE)-1] = "*"
				}
			}
			if sc.kind == 0 {
				sc = m.list(n.Catch, fr)
			}
			if n.Var && n.Shared {
				m.sharedE = m.sharedE[:len(m.sharedE)-1]
			}
			if sc.kind != 0 {
				if n.HasFin {
					m.ambiguous = true
					if m.pol.finAfterFail {
						m.list(n.Finally, fr) // its own outcome is not specified either; keep catch's
					}
				}
				return sc
			}
		} else if s.kind != 0 {
			// return / break / continue leaving a try body: the property is silent
			m.ambiguousCF = true
			if m.pol.ctrlToCatch {
				m.catchMsg[n.ID] = anyMsg
				var sc sig
				if n.Var && n.Shared {
					m.sharedE = append(m.sharedE, "*")
				}
				if n.Var {
					sc = m.host("v:" + id + ":*")
				}
				if sc.kind == 0 {
					sc = m.list(n.Catch, fr)
				}
				if n.Var && n.Shared {
					m.sharedE = m.sharedE[:len(m.sharedE)-1]
				}
				if sc.kind != 0 {
					if n.HasFin {
						m.ambiguous = true
						if m.pol.finAfterFail {
							m.list(n.Finally, fr)
						}
					}
					return sc
				}
				if n.HasFin {
					return m.list(n.Finally, fr)
				}
				return sig{}
			}
			if n.HasFin && m.pol.finOnCtrl {
				if sf := m.list(n.Finally, fr); sf.kind != 0 {
					return sf
				}
			}
			return s
		}
		if n.HasFin {
			return m.list(n.Finally, fr)
		}
		return sig{}
	case "defer-probe":
		fr.defers = append(fr.defers, func() sig { return m.host("p:" + id) })
		return sig{}
	case "defer-nested":
		v := strconv.Itoa(n.Val)
		fr.defers = append(fr.defers, func() sig {
			return m.call(func(f *frame) sig { return m.host("v:" + id + ":" + v) })
		})
		return sig{}
	case "defer-anonarg":
		v := strconv.Itoa(n.Val)
		switch n.N % 4 {
		case 1:
			fr.defers = append(fr.defers, func() sig {
				return m.call(func(f *frame) sig { return m.host("v:" + id + ":" + v) })
			})
		case 2:
			return m.host("v:" + id + ":" + v)
		default:
			fr.defers = append(fr.defers, func() sig { return m.host("v:" + id + ":" + v) })
		}
		return sig{}
	case "defer-arg":
		v := n.Val
		fr.defers = append(fr.defers, func() sig { return m.host("v:" + id + ":" + strconv.Itoa(v)) })
		return sig{}
	case "defer-anon":
		fr.defers = append(fr.defers, func() sig {
			return m.call(func(f *frame) sig { return m.list(n.Body, f) })
		})
		return sig{}
	case "defer-named":
		v := n.Val
		fr.defers = append(fr.defers, func() sig {
			return m.call(func(f *frame) sig {
				if s := m.host("v:" + id + ":" + strconv.Itoa(v)); s.kind != 0 {
					return s
				}
				return m.list(n.Body, f)
			})
		})
		return sig{}
	case "loop", "forin":
		for i := 0; i < n.N; i++ {
			m.loopIdx[n.ID] = i
			s := m.list(n.Body, fr)
			if s.kind == 3 {
				break
			}
			if s.kind == 4 || s.kind == 0 {
				continue
			}
			return s
		}
		return sig{}
	case "if":
		c := n.Cond == "true"
		if strings.HasPrefix(n.Cond, "eq:") {
			parts := strings.Split(n.Cond, ":")
			l, _ := strconv.Atoi(parts[1])
			k, _ := strconv.Atoi(parts[2])
			c = m.loopIdx[l] == k
		}
		if c {
			return m.list(n.Body, fr)
		}
		return m.list(n.Else, fr)
	case "ret":
		return sig{kind: 2, val: int64(n.Val)}
	case "throw":
		return sig{kind: 1, msg: n.Msg}
	case "rethrow":
		return sig{kind: 1, msg: m.catchMsg[n.N]}
	case "rterr":
		return sig{kind: 1, msg: anyMsg}
	case "break":
		return sig{kind: 3}
	case "continue":
		return sig{kind: 4}
	case "stray":
		return sig{kind: 3 + n.N%2} // turned into an error where the invocation ends (call)
	case "module", "switch":
		return m.list(n.Body, fr)
	case "defer-callarg":
		switch n.N % 4 {
		case 1:
			return sig{kind: 1, msg: anyMsg}
		case 2, 3:
			if n.N%4 == 2 {
				// whether the later write to the element shows in the deferred call is general value semantics
				// of the language (arguments alias slots): only "the call runs, once, in its turn" is judged
				fr.defers = append(fr.defers, func() sig { return m.host("v:" + id + ":*") })
			} else {
				fr.defers = append(fr.defers, func() sig { return m.host("v:" + id + ":<nil>") })
			}
			return sig{}
		}
		before := m.calls
		if s := m.host("p:" + strconv.Itoa(n.Val)); s.kind != 0 {
			return s
		}
		arg := "<nil>"
		if m.faults[before+1] == "error-result" {
			arg = "returned error value"
		}
		fr.defers = append(fr.defers, func() sig { return m.host("v:" + id + ":" + arg) })
		return sig{}
	case "ifchain":
		// a probe returns nil unless the injected fault makes it return an error value (then the arm is taken)
		before := m.calls
		if s := m.host("p:" + id); s.kind != 0 {
			return s
		}
		if m.faults[before+1] == "error-result" {
			return m.list(n.Body, fr)
		}
		before = m.calls
		if s := m.host("p:" + strconv.Itoa(n.N)); s.kind != 0 {
			return s
		}
		if m.faults[before+1] == "error-result" {
			return m.list(n.Catch, fr)
		}
		return m.list(n.Else, fr)
	case "logic", "switchc":
		if s := m.host("v:" + id + ":0"); s.kind != 0 {
			return s
		}
		if s := m.host("v:" + strconv.Itoa(n.N) + ":0"); s.kind != 0 {
			return s
		}
		if n.K == "switchc" && !n.Var {
			return m.list(n.Body, fr)
		}
		return sig{}
	case "whilec":
		before := m.calls
		if s := m.host("p:" + id); s.kind != 0 {
			return s
		}
		if m.faults[before+1] == "error-result" {
			return m.list(n.Body, fr) // followed by a literal break
		}
		return sig{}
	case "callback":
		for i := 0; i < n.N; i++ {
			if r := m.call(func(f *frame) sig { return m.list(n.Body, f) }); r.kind == 1 {
				return r
			}
		}
		return sig{}
	case "recdefer":
		var walk func(k int) sig
		walk = func(k int) sig {
			return m.call(func(f *frame) sig {
				kk := k
				f.defers = append(f.defers, func() sig { return m.host("v:" + id + ":" + strconv.Itoa(kk)) })
				if k > 0 {
					if r := walk(k - 1); r.kind == 1 {
						return r
					}
				}
				return m.host("p:" + strconv.Itoa(n.Val))
			})
		}
		if n.Var {
			if r := walk(0); r.kind == 1 {
				return r
			}
		}
		if r := walk(n.N); r.kind == 1 {
			return r
		}
		return sig{}
	case "show-e":
		return m.host("v:" + id + ":" + m.sharedE[len(m.sharedE)-1])
	case "defer-loopvar":
		v, id2 := strconv.Itoa(n.Val), strconv.Itoa(n.N)
		fr.defers = append(fr.defers, func() sig {
			return m.call(func(f *frame) sig { return m.host("v:" + id + ":" + v) })
		})
		fr.defers = append(fr.defers, func() sig {
			return m.call(func(f *frame) sig { return m.host("v:" + id2 + ":" + v) })
		})
		return sig{}
	case "retvar":
		// deferred calls do not alter the invocation's result: the value was fixed by `return`
		return m.host("v:" + id + ":" + strconv.Itoa(n.Val))
	case "multi":
		if n.N%nMulti == 9 {
			// p(a) ?? p(b): an error of the left side is discarded, a nil result too; only a non-nil
			// result (the injected "error returned as a value") keeps the right side from being evaluated
			before := m.calls
			s1 := m.host("p:" + strconv.Itoa(n.Body[0].ID))
			if s1.kind == 0 && m.faults[before+1] == "error-result" {
				return sig{}
			}
			return m.host("p:" + strconv.Itoa(n.Body[1].ID))
		}
		// the expressions of a list are evaluated left to right; the first failure aborts the statement
		for _, it := range n.Body {
			if it.K == "fcall" {
				if r := m.call(func(f *frame) sig { return m.list(it.Body, f) }); r.kind == 1 {
					return r
				}
			} else if s := m.host("p:" + strconv.Itoa(it.ID)); s.kind != 0 {
				return s
			}
		}
		if f := n.N % nMulti; f == 4 || f == 10 {
			return m.host("p:" + id)
		}
		return sig{}
	}
	return sig{}
}

type outcome struct {
	trace     []string
	err       string // the error text when failed; anyMsg = some error
	failed    bool   // the run ends with an error (its text may be empty: `throw ""` is a throw)
	val       interface{}
	ambiguous bool
	ambigCF   bool
	calls     int
	fired     map[string]int
}

func runModel(w *Work, faults map[int]string, pol policy) outcome {
	m := &model{faults: faults, pol: pol, sharedE: []string{"777"}, loopIdx: map[int]int{}, catchMsg: map[int]string{}, fired: map[string]int{}}
	r := m.call(func(f *frame) sig {
		s := m.list(w.Prog, f)
		if s.kind == 0 && w.Tail != 0 {
			return sig{kind: 2, val: int64(w.Tail)}
		}
		return s
	})
	o := outcome{trace: m.trace, ambiguous: m.ambiguous, ambigCF: m.ambiguousCF, calls: m.calls, fired: m.fired, val: r.val}
	if r.kind == 1 {
		o.err = r.msg
		o.failed = true
	}
	return o
}

func matchTrace(want, got []string) bool {
	if len(want) != len(got) {
		return false
	}
	for i := range want {
		w, g := want[i], got[i]
		if w == g {
			continue
		}
		if strings.HasSuffix(w, ":*") && strings.HasPrefix(g, strings.TrimSuffix(w, "*")) {
			continue
		}
		if i := strings.Index(w, subMsg); i >= 0 && strings.HasPrefix(g, w[:i]) && strings.Contains(g[i:], w[i+len(subMsg):]) {
			continue
		}
		return false
	}
	return true
}

// ---------------------------------------------------------------------------
// generator

type gen struct {
	r      interface{ Intn(int) int }
	nextID int
	budget int
}

type gctx struct {
	depth     int
	inFunc    bool
	noRet     bool  // inside a try body of the current invocation
	loops     []int // enclosing loops of the current invocation that break/continue may target
	noBrk     bool  // a try body lies between here and the nearest loop
	catchVars []int // try ids whose catch variable is in scope
	quirk     bool  // inside a try body from which control flow may leave
	showE     bool  // `e` resolves lexically without crossing a function boundary
}

func (g *gen) id() int { g.nextID++; return g.nextID }

func (g *gen) stmts(c gctx, max int) []*Node {
	n := 1 + g.r.Intn(max)
	var out []*Node
	for i := 0; i < n && g.budget > 0; i++ {
		out = append(out, g.stmt(c))
	}
	return out
}

func (g *gen) stmt(c gctx) *Node {
	g.budget--
	id := g.id()
	leaf := c.depth >= 4 || g.budget <= 0
	for {
		k := g.r.Intn(20)
		inner := c
		inner.depth++
		switch {
		case k < 5:
			return &Node{K: "probe", ID: id}
		case k == 5 && !leaf:
			kind := []string{"func", "callrec", "funcvar", "anoncall"}[g.r.Intn(4)]
			fc := gctx{depth: c.depth + 1, inFunc: true}
			body := g.stmts(fc, 4)
			if kind == "callrec" || g.r.Intn(3) == 0 {
				body = append(body, &Node{K: "ret", ID: g.id(), Val: 10 + g.r.Intn(80)})
			}
			return &Node{K: kind, ID: id, N: g.r.Intn(7), Body: body}
		case (k == 6 || k == 7) && !leaf:
			n := &Node{K: "try", ID: id, Var: g.r.Intn(2) == 0, HasFin: g.r.Intn(2) == 0}
			n.Edit = n.Var && g.r.Intn(4) == 0
			bc := inner
			bc.noRet, bc.noBrk = true, true
			if g.r.Intn(6) == 0 {
				// rarely: let return / break / continue leave the try body (two readings accepted)
				bc.noRet, bc.noBrk = c.noRet, c.noBrk
				bc.quirk = true
			}
			n.Body = g.stmts(bc, 4)
			cc := inner
			if n.Var && c.showE && g.r.Intn(3) == 0 {
				n.Shared = true
			}
			if n.Var && !n.Shared {
				cc.catchVars = append(append([]int{}, c.catchVars...), id)
			}
			if n.HasFin {
				// control flow leaving a catch that has a finally is the unspecified point: keep it rare but present
				cc.noRet, cc.noBrk = c.noRet || g.r.Intn(4) != 0, c.noBrk || g.r.Intn(4) != 0
			}
			n.Catch = g.stmts(cc, 3)
			if n.HasFin {
				fc := inner
				if n.Shared {
					// whether the catch variable is still visible in `finally` is not specified: do not look
					fc.showE = false
				}
				n.Finally = g.stmts(fc, 3)
			}
			return n
		case k == 8 && g.r.Intn(4) == 0:
			return &Node{K: "defer-callarg", ID: id, N: g.r.Intn(4), Val: g.id()}
		case k == 8:
			return &Node{K: "defer-probe", ID: id}
		case k == 9 && g.r.Intn(3) == 0:
			return &Node{K: "defer-loopvar", ID: id, N: g.id(), Val: 100 + g.r.Intn(800)}
		case k == 9 && g.r.Intn(3) == 0:
			return &Node{K: "defer-nested", ID: id, Var: g.r.Intn(2) == 0, Val: 100 + g.r.Intn(800)}
		case k == 9 && g.r.Intn(3) == 0:
			return &Node{K: "defer-anonarg", ID: id, N: g.r.Intn(4), Val: 100 + g.r.Intn(800)}
		case k == 9:
			return &Node{K: "defer-arg", ID: id, Val: 100 + g.r.Intn(800)}
		case k == 10 && !leaf:
			fc := gctx{depth: c.depth + 1, inFunc: true}
			return &Node{K: "defer-anon", ID: id, Body: g.stmts(fc, 3)}
		case k == 11 && !leaf:
			fc := gctx{depth: c.depth + 1, inFunc: true}
			return &Node{K: "defer-named", ID: id, N: g.r.Intn(4), Val: 100 + g.r.Intn(800), Body: g.stmts(fc, 2)}
		case k == 12 && !leaf:
			kind := "loop"
			if g.r.Intn(3) == 0 {
				kind = "forin"
			}
			lc := inner
			lc.loops = append(append([]int{}, c.loops...), id)
			lc.noBrk = false
			return &Node{K: kind, ID: id, N: 1 + g.r.Intn(3), Body: g.stmts(lc, 3)}
		case k == 13 && !leaf && g.r.Intn(5) == 0:
			switch g.r.Intn(5) {
			case 3:
				return &Node{K: "logic", ID: id, N: g.id(), Val: g.r.Intn(4)}
			case 4:
				sw := &Node{K: "switchc", ID: id, N: g.id(), Var: g.r.Intn(3) == 0}
				if !sw.Var {
					sw.Body = g.stmts(inner, 2)
				}
				return sw
			case 0:
				return &Node{K: "ifchain", ID: id, N: g.id(), Body: g.stmts(inner, 2), Catch: g.stmts(inner, 2), Else: g.stmts(inner, 2)}
			case 1:
				lc := inner
				lc.noBrk = true
				return &Node{K: "whilec", ID: id, Var: g.r.Intn(2) == 0, Body: g.stmts(lc, 2)}
			}
			fc := gctx{depth: c.depth + 1, inFunc: true}
			cb := &Node{K: "callback", ID: id, N: 1 + g.r.Intn(3), Var: g.r.Intn(2) == 0}
			if g.r.Intn(3) == 0 {
				cb.Val = 1
				fc.noRet = true // the Go type wants an error result: only the literal `return nil` at the end
			}
			cb.Body = g.stmts(fc, 3)
			return cb
		case k == 13 && !leaf && g.r.Intn(4) == 0:
			bc := inner
			bc.noBrk = true
			if g.r.Intn(2) == 0 {
				bc.noRet, bc.showE = true, false
				return &Node{K: "module", ID: id, Body: g.stmts(bc, 3)}
			}
			return &Node{K: "switch", ID: id, N: g.r.Intn(2), Body: g.stmts(bc, 3)}
		case k == 13 && !leaf:
			n := &Node{K: "if", ID: id, Cond: []string{"true", "false"}[g.r.Intn(2)]}
			if len(c.loops) > 0 && g.r.Intn(2) == 0 {
				n.Cond = fmt.Sprintf("eq:%d:%d", c.loops[g.r.Intn(len(c.loops))], g.r.Intn(3))
			}
			n.Body = g.stmts(inner, 3)
			if g.r.Intn(2) == 0 {
				n.Else = g.stmts(inner, 2)
			}
			return n
		case k == 14 && c.inFunc && !c.noRet:
			return &Node{K: "ret", ID: id, Val: 10 + g.r.Intn(80)}
		case k == 15 && g.r.Intn(4) == 0:
			return &Node{K: "retvar", ID: id, Val: 10 + g.r.Intn(80)}
		case k == 16 && g.r.Intn(3) == 0:
			return &Node{K: "recdefer", ID: id, N: 1 + g.r.Intn(3), Var: g.r.Intn(2) == 0, Val: g.id()}
		case k == 15 && c.showE && g.r.Intn(3) == 0:
			return &Node{K: "show-e", ID: id}

		case k == 15:
			msg := "t" + strconv.Itoa(id)
			if g.r.Intn(3) == 0 {
				msg += []string{" 100%", " %d of %s", "%", " 5%%"}[g.r.Intn(4)] // a thrown text is data, whatever it contains
			}
			if g.r.Intn(10) == 0 {
				msg = "" // an empty text is thrown like any other
			} else if g.r.Intn(8) == 0 {
				// so is a text that happens to be one of the interpreter's own messages
				msg = ownTexts[g.r.Intn(len(ownTexts))]
			}
			return &Node{K: "throw", ID: id, Msg: msg}
		case k == 16:
			return &Node{K: "rterr", ID: id, N: g.r.Intn(len(rterrForms))}
		case k == 17 && len(c.loops) > 0 && !c.noBrk:
			return &Node{K: []string{"break", "continue"}[g.r.Intn(2)], ID: id}
		case k == 17 && len(c.loops) == 0 && !c.noBrk && !c.quirk && c.depth > 0 && g.r.Intn(2) == 0:
			return &Node{K: "stray", ID: id, N: g.r.Intn(2)}
		case k == 18 && len(c.catchVars) > 0:
			return &Node{K: "rethrow", ID: id, N: c.catchVars[len(c.catchVars)-1]}
		case k == 19 && !leaf:
			n := &Node{K: "multi", ID: id, N: g.r.Intn(nMulti)}
			cnt := 2 + g.r.Intn(2)
			if f := n.N % nMulti; f == 9 || f == 5 || f == 6 || f == 11 {
				cnt = 2
			}
			for i := 0; i < cnt; i++ {
				if g.r.Intn(2) == 0 && n.N%nMulti != 9 {
					fc := gctx{depth: c.depth + 1, inFunc: true}
					n.Body = append(n.Body, &Node{K: "fcall", ID: g.id(), Body: g.stmts(fc, 3)})
				} else {
					n.Body = append(n.Body, &Node{K: "probe", ID: g.id()})
				}
			}
			return n
		case k == 19 && g.r.Intn(6) == 0:
			return &Node{K: "gopanic", ID: id, N: g.r.Intn(4), Val: g.id()}
		case k == 19:
			return &Node{K: "probe", ID: id}
		}
	}
}

// texts the interpreter itself uses for its errors: thrown by a script or carried by a host panic they are data
var ownTexts = []string{"index out of range", "execution interrupted", "unexpected break statement", "unexpected continue statement", "unexpected return statement", "integer divide by zero", "undefined symbol 'e'", "invalid operation", "unknown statement"}

var faultKinds = []string{"panic-string", "panic-error", "panic-value", "runtime-error", "error-result", "panic-unhashable"}

type errList []string

func (e errList) Error() string { return strings.Join(e, "; ") }

type Prop struct{}

func init() { harness.Register(Prop{}) }

func (Prop) ID() string { return "C09" }

func (Prop) Gen(seed int64, tier string) *harness.Case {
	r := harness.Rand(seed)
	g := &gen{r: r, budget: 8 + r.Intn(40)}
	if tier == "thorough" && r.Intn(3) == 0 {
		g.budget = 40 + r.Intn(80)
	}
	w := Work{Prog: g.stmts(gctx{inFunc: true, showE: true}, 5)} // `return` is legal at top level too
	if r.Intn(2) == 0 {
		w.Tail = 1 + r.Intn(98)
	}
	base := runModel(&w, nil, policy{ctrlToCatch: true})
	var evs []harness.EventSpec
	if base.calls > 0 {
		nf := r.Intn(3)
		for i := 0; i < nf; i++ {
			evs = append(evs, harness.EventSpec{Kind: faultKinds[r.Intn(len(faultKinds))], Arg: 1 + r.Intn(base.calls)})
		}
	}
	wb, _ := json.Marshal(w)
	knobs := map[string]int{"nodes": g.nextID, "host_calls_fault_free": base.calls}
	if r.Intn(3) == 0 {
		// the probe functions get a Go type of their own (one of 4000): whatever the interpreter keeps per function
		// TYPE (how to call it, whether it is a script function) then sees many types in one process
		knobs["ptype"] = 1 + r.Intn(4000)
	}
	return &harness.Case{Prop: "C09", Seed: seed, Tier: tier, Workload: wb, Events: evs, Knobs: knobs, Source: Render(&w)}
}

var (
	tInt64 = reflect.TypeOf(int64(0))
	tIface = reflect.TypeOf((*interface{})(nil)).Elem()
)

// probeOfType returns fn as a Go function of type func(int64, ...[n]int64) interface{}: callable exactly like
// func(int64) interface{}, but a distinct Go type for every n.
func probeOfType(n int, fn func(id int64) interface{}) interface{} {
	ft := reflect.FuncOf([]reflect.Type{tInt64, reflect.SliceOf(reflect.ArrayOf(n, tInt64))}, []reflect.Type{tIface}, true)
	return reflect.MakeFunc(ft, func(a []reflect.Value) []reflect.Value {
		out := reflect.New(tIface).Elem()
		if r := fn(a[0].Int()); r != nil {
			out.Set(reflect.ValueOf(r))
		}
		return []reflect.Value{out}
	}).Interface()
}

func (Prop) Run(t *testing.T, c *harness.Case, verbose bool) *harness.Result {
	var w Work
	res := &harness.Result{Counters: map[string]int{}, Outcome: "done"}
	if err := json.Unmarshal(c.Workload, &w); err != nil {
		res.Inconclusive = "bad workload"
		return res
	}
	if !valid(&w) {
		res.Inconclusive = "workload breaks the generator's invariants"
		return res
	}
	src := Render(&w)
	stmt, err := parser.ParseSrc(src)
	if err != nil {
		res.Inconclusive = "generator produced a script that does not parse: " + err.Error() + "\n" + src
		return res
	}
	faults := map[int]string{}
	for _, ev := range c.Events {
		faults[ev.Arg] = ev.Kind
	}
	// real run
	calls := 0
	var trace []string
	host := func(entry string) interface{} {
		calls++
		trace = append(trace, entry)
		if f, ok := faults[calls]; ok {
			switch f {
			case "panic-string":
				panic(strings.TrimPrefix(faultMsg(f, calls), subMsg))
			case "panic-error":
				panic(errors.New(strings.TrimPrefix(faultMsg(f, calls), subMsg)))
			case "panic-value":
				panic(1000 + calls)
			case "panic-unhashable":
				// an error value of slice kind (like go/scanner.ErrorList): it cannot be hashed or compared
				panic(errList{strings.TrimPrefix(faultMsg(f, calls), subMsg), "second"})
			case "runtime-error":
				var mm map[string]int
				mm["x"] = 1
			case "error-result":
				return errors.New("returned error value")
			}
		}
		return nil
	}
	e := env.NewEnv()
	e.Define("p", func(id int64) interface{} { return host("p:" + strconv.FormatInt(id, 10)) })
	e.Define("p2", func(id int64, rest ...interface{}) interface{} { return host("p:" + strconv.FormatInt(id, 10)) })
	if n := c.Knobs["ptype"]; n > 0 {
		e.Define("p", probeOfType(n, func(id int64) interface{} { return host("p:" + strconv.FormatInt(id, 10)) }))
		res.Counters["probe_function_of_its_own_go_type"]++
	}
	e.Define("pv", func(id int64, v interface{}) interface{} {
		return host("v:" + strconv.FormatInt(id, 10) + ":" + fmt.Sprint(v))
	})
	e.Define("hcb", func(n int64, f func(int64)) {
		for i := int64(0); i < n; i++ {
			f(i)
		}
	})
	e.Define("hostnil", nil)
	e.Define("hce", func(n int64, f func(int64) error) int64 {
		var failed int64
		for i := int64(0); i < n; i++ {
			if err := f(i); err != nil {
				failed++ // a host that tolerates failing items
			}
		}
		return failed
	})
	e.Define("hcr", func(n int64, f func(int64) int64) int64 {
		var s int64
		for i := int64(0); i < n; i++ {
			s += f(i)
		}
		return s
	})
	var val interface{}
	var rerr error
	crashed := ""
	func() {
		defer func() {
			if x := recover(); x != nil {
				crashed = fmt.Sprint(x)
			}
		}()
		val, rerr = vm.RunContext(context.Background(), e, &vm.Options{Debug: false}, stmt)
	}()
	got := ""
	if rerr != nil {
		got = rerr.Error()
	}

	// the reading the unedited suite pins comes first; the others are tried only if it does not match
	a := runModel(&w, faults, policy{ctrlToCatch: true})
	res.Steps = calls
	res.Tasks = 1
	res.LogHash = harness.HashStrings(strings.Join(trace, ","), got)
	res.Shape = harness.HashStrings(string(c.Workload), fmt.Sprint(c.Events))
	for k, v := range a.fired {
		res.Counters["fault_fired_"+k] += v
	}
	res.Counters["host_calls"] = calls
	if a.ambiguous {
		res.Counters["passed_unspecified_point"]++
	}
	if a.ambigCF {
		res.Counters["control_flow_left_a_try_body"]++
	}
	if a.failed {
		res.Counters["uncaught_error_expected"]++
	}
	nfired := 0
	for _, v := range a.fired {
		nfired += v
	}
	res.Nontrivial = nfired > 0 || a.failed
	if verbose {
		res.Log = append(res.Log, "source:\n"+src, "real trace:  "+strings.Join(trace, " "), "model trace: "+strings.Join(a.trace, " "),
			fmt.Sprintf("real err=%q val=%v; model err=%q val=%v", got, val, a.err, a.val))
	}
	fail := func(class, detail string) *harness.Result {
		res.Violation = class
		res.Detail = fmt.Sprintf("%s\nfaults (k-th host call -> kind): %v\nexpected trace: %s\nactual trace:   %s\nexpected error: %q  actual error: %q\n%s",
			detail, faults, strings.Join(a.trace, " "), strings.Join(trace, " "), a.err, got, src)
		res.Signature = class
		if hasKnownForm(w.Prog) {
			res.Signature += " recv-ok-target-error-ignored"
		}
		res.Detail = strings.NewReplacer(subMsg, "~", anyMsg, "<any error>").Replace(res.Detail)
		return res
	}
	if crashed != "" {
		return fail("panic-escaped", "a panic escaped vm.RunContext: "+crashed)
	}
	ok := func(o outcome) (bool, string) {
		if !matchTrace(o.trace, trace) {
			return false, "trace"
		}
		if o.failed != (rerr != nil) {
			return false, "error"
		}
		if strings.HasPrefix(o.err, subMsg) {
			if !strings.Contains(got, strings.TrimPrefix(o.err, subMsg)) {
				return false, "error"
			}
		} else if o.failed && o.err != anyMsg && o.err != got {
			return false, "error"
		}
		if !o.failed && o.val != anyVal && o.val != nil && o.val != val {
			return false, "value"
		}
		return true, ""
	}
	okA, whyA := ok(a)
	if okA {
		return res
	}
	for _, pol := range []policy{
		{true, true, false}, {false, false, false}, {false, false, true}, {true, false, false}, {true, false, true},
	} {
		if !pol.ctrlToCatch && !a.ambigCF {
			continue
		}
		o := runModel(&w, faults, pol)
		if !o.ambiguous && !o.ambigCF && !a.ambiguous && !a.ambigCF {
			break
		}
		if okB, _ := ok(o); okB {
			res.Counters["accepted_alternative_reading"]++
			return res
		}
	}
	switch whyA {
	case "trace":
		return fail("trace-mismatch", "the probe trace differs from the reference semantics (order / exactly-once / nothing after the failing point / defer arguments)")
	case "error":
		return fail("error-mismatch", "the error returned to the host differs from the reference semantics")
	default:
		return fail("value-mismatch", fmt.Sprintf("deferred calls must not alter the result: expected %v, got %v", a.val, val))
	}
}

// valid checks the generator's invariants, so that shrinking can never turn a
// real violation into an artefact of an ill-formed program.
func valid(w *Work) bool {
	var chk func(ns []*Node, c gctx) bool
	chk = func(ns []*Node, c gctx) bool {
		for _, n := range ns {
			fc := gctx{inFunc: true}
			switch n.K {
			case "func", "callrec", "funcvar", "anoncall", "defer-anon", "defer-named", "fcall", "callback":
				if n.K == "callback" && n.Val == 1 {
					fc.noRet = true
				}
				if !chk(n.Body, fc) {
					return false
				}
			case "multi":
				if len(n.Body) < 2 {
					return false
				}
				for _, it := range n.Body {
					if it.K != "probe" && it.K != "fcall" {
						return false
					}
					if it.K != "probe" && n.N%nMulti == 9 {
						return false
					}
				}
				if f := n.N % nMulti; (f == 9 || f == 5 || f == 6 || f == 11) && len(n.Body) != 2 {
					return false
				}
				if !chk(n.Body, c) {
					return false
				}
			case "try":
				bc := c // control flow may leave a try body: the oracle accepts both readings
				cc := c
				if n.Shared && (!n.Var || !c.showE) {
					return false
				}
				if n.Var && !n.Shared {
					cc.catchVars = append(append([]int{}, c.catchVars...), n.ID)
				}
				fc := c
				if n.Shared {
					fc.showE = false
				}
				if !chk(n.Body, bc) || !chk(n.Catch, cc) || !chk(n.Finally, fc) {
					return false
				}
			case "loop", "forin":
				lc := c
				lc.loops = append(append([]int{}, c.loops...), n.ID)
				lc.noBrk = false
				if !chk(n.Body, lc) {
					return false
				}
			case "if":
				if strings.HasPrefix(n.Cond, "eq:") {
					parts := strings.Split(n.Cond, ":")
					l, _ := strconv.Atoi(parts[1])
					found := false
					for _, x := range c.loops {
						if x == l {
							found = true
						}
					}
					if !found {
						return false
					}
				}
				if !chk(n.Body, c) || !chk(n.Else, c) {
					return false
				}
			case "show-e":
				if !c.showE {
					return false
				}
			case "ret":
				if !c.inFunc || c.noRet {
					return false
				}
			case "break", "continue":
				if len(c.loops) == 0 || c.noBrk {
					return false
				}
			case "ifchain":
				if !chk(n.Body, c) || !chk(n.Catch, c) || !chk(n.Else, c) {
					return false
				}
			case "switchc":
				if !chk(n.Body, c) {
					return false
				}
			case "whilec":
				lc := c
				lc.noBrk = true
				if !chk(n.Body, lc) {
					return false
				}
			case "stray":
				if len(c.loops) != 0 {
					return false
				}
			case "module", "switch":
				bc := c
				bc.noBrk = true
				if n.K == "module" {
					bc.noRet, bc.showE = true, false
				}
				if !chk(n.Body, bc) {
					return false
				}
			case "rethrow":
				found := false
				for _, x := range c.catchVars {
					if x == n.N {
						found = true
					}
				}
				if !found {
					return false
				}
			}
		}
		return true
	}
	return chk(w.Prog, gctx{inFunc: true, showE: true})
}

func (Prop) Shrink(c *harness.Case) []*harness.Case {
	var w Work
	if json.Unmarshal(c.Workload, &w) != nil {
		return nil
	}
	var out []*harness.Case
	emit := func(nw *Work, evs []harness.EventSpec) {
		d := c.Clone()
		d.Workload, _ = json.Marshal(nw)
		d.Events = evs
		d.Source = Render(nw)
		out = append(out, d)
	}
	// drop events
	for i := range c.Events {
		evs := append(append([]harness.EventSpec{}, c.Events[:i]...), c.Events[i+1:]...)
		emit(&w, evs)
	}
	// structural: delete one statement / hoist a block's children, at every position
	var paths [][]int
	var walk func(ns []*Node, prefix []int)
	count := 0
	walk = func(ns []*Node, prefix []int) {
		for i, n := range ns {
			p := append(append([]int{}, prefix...), i)
			paths = append(paths, p)
			count++
			walk(n.Body, append(p, -1))
			walk(n.Catch, append(p, -2))
			walk(n.Finally, append(p, -3))
			walk(n.Else, append(p, -4))
		}
	}
	walk(w.Prog, nil)
	clone := func() *Work {
		b, _ := json.Marshal(w)
		var nw Work
		json.Unmarshal(b, &nw)
		return &nw
	}
	for _, p := range paths {
		nw := clone()
		if deleteAt(&nw.Prog, p) && valid(nw) {
			emit(nw, c.Events)
		}
	}
	if w.Tail != 0 {
		nw := clone()
		nw.Tail = 0
		emit(nw, c.Events)
	}
	for i, ev := range c.Events {
		if ev.Arg > 1 {
			evs := append([]harness.EventSpec{}, c.Events...)
			evs[i].Arg = ev.Arg - 1
			emit(&w, evs)
		}
		if ev.Kind != "panic-string" {
			evs := append([]harness.EventSpec{}, c.Events...)
			evs[i].Kind = "panic-string"
			emit(&w, evs)
		}
	}
	return out
}

func childList(n *Node, sel int) *[]*Node {
	switch sel {
	case -1:
		return &n.Body
	case -2:
		return &n.Catch
	case -3:
		return &n.Finally
	case -4:
		return &n.Else
	}
	return nil
}

func deleteAt(list *[]*Node, path []int) bool {
	if len(path) == 1 {
		i := path[0]
		if i >= len(*list) {
			return false
		}
		*list = append(append([]*Node{}, (*list)[:i]...), (*list)[i+1:]...)
		return true
	}
	i, sel := path[0], path[1]
	if i >= len(*list) {
		return false
	}
	cl := childList((*list)[i], sel)
	if cl == nil {
		return false
	}
	return deleteAt(cl, path[2:])
}
