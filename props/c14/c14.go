// Package c14: runs are isolated and repeatable; executing a tree never
// changes it.
//
// A goroutine-free program, built from statement templates that touch every
// place where runtime data sits next to syntax, is parsed ONCE. Solo reference
// runs (separately parsed tree, fresh env per configuration) come first; then
// k sequential re-runs and 2-4 concurrent runs of the shared tree - each task
// with its own fresh Env and its own bindings (the same names bound to
// different Go functions / numbers per env, so cross-talk changes results) -
// interleaved by the scheduler at every variable access and probe.
//
// Oracle: (a) a reflection-based structural dump of the tree (including literal
// reflect.Value contents and the validity of CallExpr.Func) is identical
// before, between and after runs; (b) every run's value, error and probe trace
// equal the solo run's; (c) final bindings equal solo's and no env sees another
// env's names; env.Packages tables are unchanged and an env that overwrote an
// imported symbol does not affect another env's import; (d) process-wide
// values (small-integer cache bounds, the shared `1` of ++/--, nil/true/false)
// still evaluate correctly afterwards.
package c14

import (
	"context"
	"encoding/json"
	"fmt"
	"os"
	"path/filepath"
	"reflect"
	"sort"
	"strconv"
	"strings"
	"sync"
	"sync/atomic"
	"testing"
	"time"

	"github.com/mattn/anko/ast"
	"github.com/mattn/anko/core"
	"github.com/mattn/anko/env"
	_ "github.com/mattn/anko/packages"
	"github.com/mattn/anko/parser"
	"github.com/mattn/anko/vm"

	"verifsim/harness"
	"verifsim/simrt"
)

type Work struct {
	Stmts   []int `json:"stmts"`              // template indices, in order
	Envs    int   `json:"envs"`               // concurrent executions
	Reruns  int   `json:"reruns"`             // sequential re-runs of the shared tree
	ErrTail bool  `json:"errtail"`            // program ends with a runtime error
	OptMode int   `json:"opt_mode,omitempty"` // vm.Options: 0 a fresh value per execution, 1 nil, 2 one value shared by all executions (as hosts do)
	// SharedBase: every environment of the case is a child of ONE base environment in which an earlier run defined a
	// small library (one prelude, many requests): the executions then call the SAME script function values. Otherwise
	// each environment defines the library itself.
	SharedBase bool `json:"shared_base,omitempty"`
	// TemplateCopy: every environment of the case is a DeepCopy() of ONE prepared template scope (an embedder's
	// "prepare once, copy per request"): whatever a copy shares with its origin or with its sibling copies - a table,
	// a slice header, a cache - is then written by several executions
	TemplateCopy bool `json:"template_copy,omitempty"`
}

// the library of SharedBase: functions that go through every calling convention (fixed arities below and above
// the fast path, variadic, with a deferred call, returning a closure)
const baseLibSrc = "func blib1(a) { return a }\nfunc blib5(a, b, c, d, e) { return [a, b, c, d, e] }\nfunc blibv(x, r...) { return [x, r] }\nfunc blibd(a, b, c, d, e, f) {\ndefer func(q) { return q }(a)\nreturn [f, a]\n}\nfunc blibk(a) { return func(b...) { return [a, b] } }\nfunc blibw(a, b, c, d, r...) { return [a, d, r] }\nfunc blib6(a, b, c, d, e, f) { return [a, f] }\nfunc blibx(a, b, c, d, e, r...) { return [e, r] }"

var (
	baseLibOnce sync.Once
	baseLibTree ast.Stmt
	// sharedBase is set for the duration of a case whose Work says SharedBase (cases run one at a time per process)
	sharedBase *env.Env
	// sharedTemplate is set for the duration of a case whose Work says TemplateCopy
	sharedTemplate *env.Env
)

func baseLib() ast.Stmt {
	baseLibOnce.Do(func() { baseLibTree, _ = parser.ParseSrc(baseLibSrc) })
	return baseLibTree
}

// withBase arranges the case's base environment (or none) and returns the function that undoes it.
func withBase(w *Work) func() {
	if w.TemplateCopy {
		b := env.NewEnv()
		st, _ := parser.ParseSrc(baseLibSrc)
		vm.Run(b, nil, st)
		// three scopes deep, with a variable in the outermost one: a copy of the whole chain has an outermost scope of its own
		b.Define("troot", int64(5))
		t := b.NewEnv().NewEnv()
		// a handful of bindings of the template's own, some of them removed again (tables and whatever is kept
		// beside them then have spare room and a history)
		for k := 0; k < 5; k++ {
			t.Define("tq"+strconv.Itoa(k), int64(k))
		}
		t.Delete("tq1")
		t.Delete("tq3")
		cell := reflect.New(reflect.TypeOf(int64(0))).Elem()
		cell.SetInt(7)
		t.DefineValue("taddr", cell)
		sharedTemplate = t
		return func() { sharedTemplate = nil }
	}
	if !w.SharedBase {
		return func() {}
	}
	b := env.NewEnv()
	st, _ := parser.ParseSrc(baseLibSrc)
	vm.Run(b, nil, st)
	sharedBase = b
	return func() { sharedBase = nil }
}

var templates = []func(u string) string{
	func(u string) string { return "x" + u + " = hostA(3) + 1\nrec(x" + u + ")" },
	func(u string) string { return "func f" + u + "(a) { return a * 7 + base }\nrec(f" + u + "(2))" },
	func(u string) string { return "rec(func(a) { return a + base }(4))" },
	func(u string) string {
		return "func d" + u + "() {\ndefer rec(1)\ndefer hostA(2)\nreturn 5\n}\nrec(d" + u + "())"
	},
	func(u string) string {
		return "i" + u + " = base\ni" + u + "++\ni" + u + "--\ni" + u + "++\nrec(i" + u + ")"
	},
	func(u string) string {
		return "rec(\"s\")\nrec(1.5)\nrec(true)\nrec(nil)\nrec([1, \"a\", 2.5])\nrec({\"k\": 1}[\"k\"])"
	},
	func(u string) string {
		return "rec(4095 + 0)\nrec(4094 + 1)\nrec(4095 + 1)\nrec(-1 + 0)\nrec(0 - 1)\nrec(-2 + 1)\nrec(-2 + 0)\na" + u + " = 4095\na" + u + "++\nrec(a" + u + ")\nb" + u + " = 0\nb" + u + "--\nrec(b" + u + ")"
	},
	func(u string) string {
		return "func mk" + u + "(n) { return func() { n++; return n } }\nc" + u + " = mk" + u + "(base)\nrec(c" + u + "())\nrec(c" + u + "())"
	},
	func(u string) string {
		return "module M" + u + " {\nv = base\nfunc get() { return v }\n}\nrec(M" + u + ".get())\nM" + u + ".v = 9\nrec(M" + u + ".v)"
	},
	func(u string) string {
		return "s" + u + " = import(\"strings\")\nrec(s" + u + ".ToUpper(\"ab\"))\nif ow { s" + u + ".ToUpper = hostUp }\nrec(s" + u + ".ToUpper(\"ab\"))\nt" + u + " = import(\"strings\")\nrec(t" + u + ".ToUpper(\"cd\"))\nif ow { import(\"strings\").ToLower = hostUp }\nrec(import(\"strings\").ToLower(\"EF\"))"
	},
	func(u string) string { return "try { throw \"e\" + base } catch e" + u + " { rec(e" + u + ") }" },
	func(u string) string {
		return "t" + u + " = 0\nfor j" + u + " = 0; j" + u + " < 3; j" + u + "++ { t" + u + " += j" + u + " * base }\nrec(t" + u + ")"
	},
	func(u string) string { return "for v" + u + " in [1, 2, 3] { rec(v" + u + " + base) }" },
	func(u string) string {
		return "rec(base > 15 ? \"big\" : \"small\")\nrec(nil ?? base)\nswitch base {\ncase 10:\nrec(\"ten\")\ncase 20:\nrec(\"twenty\")\ndefault:\nrec(\"other\")\n}"
	},
	func(u string) string {
		return "l" + u + " = [1, 2, 3]\nl" + u + "[0] = base\nrec(l" + u + "[0:2])\nl" + u + " += 4\nrec(len(l" + u + "))"
	},
	func(u string) string {
		return "var q" + u + " = base\nrec(q" + u + ")\nm" + u + ", n" + u + " = 1, base\nrec(n" + u + ")"
	},
	func(u string) string {
		return "rec(\"x\" + base)\nrec(base * 2.5)\nrec(base % 7)\nrec(-base)\nrec(!ow)"
	},
	func(u string) string {
		return "mm" + u + " = make(map[string]int64)\nmm" + u + "[\"a\"] = base\nrec(mm" + u + "[\"a\"])\nsl" + u + " = make([]int64, 2)\nsl" + u + "[1] = base\nrec(sl" + u + ")"
	},
	func(u string) string {
		return "func r" + u + "(n) { if n <= 0 { return base }; return r" + u + "(n - 1) + 1 }\nrec(r" + u + "(3))"
	},
	func(u string) string {
		return "func v" + u + "(a, b...) { return len(b) + a }\nrec(v" + u + "(base, 1, 2))\nfunc vv" + u + "(b...) { return b[0] + len(b) }\nrec(vv" + u + "([base, 5]...))"
	},
	func(u string) string {
		return "func g" + u + "(a, b, c, d, e) { return a + e }\nrec(g" + u + "(base, 2, 3, 4, 5))"
	},
	func(u string) string {
		return "p" + u + " = base\nw" + u + " = &p" + u + "\n*w" + u + " = 3\nrec(*w" + u + ")"
	},
	func(u string) string { return "rec(hostA(hostA(1)))\nrec(1 in [1, base])\nrec(len(\"abc\") + base)" },
	func(u string) string {
		return "if base == 10 { rec(\"a\") } else if base == 20 { rec(\"b\") } else { rec(\"c\") }"
	},
	// the library functions (defined by every environment itself, or once in a base environment all executions share)
	func(u string) string {
		return "rec(blib5(base, 1, hostA(2), \"s\", base))\nrec(blibv(base, base, hostA(1)))\nrec(blibv(hostA(3)))\nrec(blib1(base))"
	},
	func(u string) string {
		return "rec(blibw(base, 2, 3, 4, 5, base))\nrec(blib6(1, 2, 3, 4, 5, base))\nrec(blibx(1, 2, 3, 4, base))\nrec(blib5(1, 2, 3, 4, base))\nrec(blibd(base, 2, 3, 4, 5, hostA(6)))\nk" + u + " = blibk(base)\nrec(k" + u + "(base, 1))\nrec(blibv([base, base]...))"
	},
	// chains of three and five else-ifs (the parser grows such lists one element at a time: they have spare capacity)
	func(u string) string {
		return "if base == 1 { rec(\"a\") } else if base == 2 { rec(\"b\") } else if base == 20 { rec(\"c\") } else if base == 3 { rec(\"d\") } else { rec(\"e\") }\n" +
			"if base == 1 { rec(1) } else if base == 2 { rec(2) } else if base == 3 { rec(3) } else if base == 4 { rec(4) } else if base == 30 { rec(5) } else if base == 6 { rec(6) } else { rec(7) }\n" +
			"switch base {\ncase 1, 2, 3:\nrec(\"s1\")\ncase 10, 20, 30:\nrec(\"s2\")\ncase 40:\nrec(\"s3\")\ndefault:\nrec(\"s4\")\n}"
	},
	func(u string) string {
		return "try {\nfunc() { defer rec(\"deferred\"); throw \"inner\" + base }()\n} catch e" + u + " { rec(e" + u + ") } finally { rec(\"fin\") }"
	},
	func(u string) string {
		return "k" + u + " = 0\nfor { k" + u + "++; if k" + u + " > 2 { break }; if k" + u + " == 1 { continue }; rec(k" + u + ") }"
	},
	func(u string) string {
		return "g" + u + " = [[1, 2], [3, 4]]\ng" + u + "[0][0] = g" + u + "[0][0] + base\ng" + u + "[1] += 5\nrec(g" + u + ")\nrec([[1, 2], [3, 4]][0][0])"
	},
	func(u string) string {
		return "mm" + u + " = {\"a\": {\"b\": 1}, \"c\": [1, 2]}\nmm" + u + "[\"a\"][\"b\"] = base\nmm" + u + "[\"c\"][1] = base\nrec(mm" + u + "[\"a\"][\"b\"] + mm" + u + "[\"c\"][1])\nrec({\"a\": {\"b\": 1}}[\"a\"][\"b\"])"
	},
	func(u string) string {
		return "func lit" + u + "() { return [[0, 0], [\"x\"]] }\nq" + u + " = lit" + u + "()\nq" + u + "[0][1] = base\nq" + u + "[1][0] = \"y\" + base\nrec(lit" + u + "())\nrec(q" + u + ")"
	},
	func(u string) string {
		// the core builtins (each environment gets its own through core.Import) and a few more bundled packages
		return "rec(keys({\"a\": base}))\nrec(range(3))\nrec(range(1, 7, 2))\nrec(typeOf(base))\nrec(kindOf(\"s\"))\nrec(toString(base))\nrec(toInt(\"4\") + base)\nrec(toFloat(\"1.5\"))\nrec(toBool(\"true\"))\nrec(defined(\"base\"))\nrec(defined(\"nope" + u + "\"))\nzz" + u + " = 1\nrec(defined(\"zz" + u + "\"))\nrec(toIntSlice([1, base]))\nrec(toStringSlice([\"a\"]))"
	},
	func(u string) string {
		// typed literals, delete, string indexing and slicing
		return "tl" + u + " = []int64{1, 2, base}\ntl" + u + "[0] = base\nrec(tl" + u + ")\nrec([]int64{1, 2, base})\ntm" + u + " = map[string]int64{\"a\": 1, \"b\": base}\ndelete(tm" + u + ", \"a\")\nrec(len(tm" + u + "))\nrec(map[string]int64{\"a\": 1}[\"a\"])\nss" + u + " = \"hello\" + base\nrec(ss" + u + "[0])\nrec(ss" + u + "[1:3])\nrec(len(ss" + u + "))\nrec(\"ab\" * 2)\nrec(7 & 3 | 8)\nrec(1 << 3)"
	},
	func(u string) string {
		// named types, struct values, new, and a buffered channel used by one goroutine
		return "make(type Rec" + u + ", make(struct { A int64, B string }))\nv" + u + " = make(Rec" + u + ")\nv" + u + ".A = base\nv" + u + ".B = \"b\"\nrec(v" + u + ".A)\nw" + u + " = make(Rec" + u + ")\nrec(w" + u + ".A)\nn" + u + " = new(int64)\n*n" + u + " = base\nrec(*n" + u + ")\nc" + u + " = make(chan int64, 2)\nc" + u + " <- base\nc" + u + " <- 2\nrec(len(c" + u + "))\nrec(<-c" + u + ")\nclose(c" + u + ")\nrec(<-c" + u + ")\nrec(<-c" + u + ")"
	},
	func(u string) string {
		// nested modules, functions stored in maps and arrays, deep recursion
		return "module Out" + u + " {\nmodule In" + u + " {\nk = base\nfunc get() { return k * 2 }\n}\nfunc both() { return In" + u + ".get() + 1 }\n}\nrec(Out" + u + ".both())\nrec(Out" + u + ".In" + u + ".k)\nfm" + u + " = {\"inc\": func(x) { return x + base }, \"dbl\": func(x) { return x * 2 }}\nrec(fm" + u + ".inc(1))\nrec(fm" + u + "[\"dbl\"](4))\nfa" + u + " = [func() { return base }, func() { return 2 }]\nrec(fa" + u + "[0]() + fa" + u + "[1]())\nfunc deep" + u + "(n) { if n == 0 { return base }; return deep" + u + "(n - 1) }\nrec(deep" + u + "(40))"
	},
	func(u string) string {
		// a long string literal bound to a variable and written through; a raw string and a block comment
		return "s" + u + " = \"0123456789-0123456789-0123456789-0123456789\"\np" + u + " = &s" + u + "\n*p" + u + " = \"changed\" + base\nrec(\"0123456789-0123456789-0123456789-0123456789\")\nt" + u + " = \"abcdefghij-abcdefghij-abcdefghij-abcdefghij\"\nt" + u + " += base\nrec(t" + u + ")\nmust(\"abcdefghij-abcdefghij-abcdefghij-abcdefghij\" == \"abcdefghij-\" + \"abcdefghij-abcdefghij-abcdefghij\")\n/* block comment " + u + " */\nrec(`raw " + u + " string`)"
	},
	func(u string) string {
		// a compiled regexp is a mutable Go object: Longest() in one environment must not reach another
		return "re" + u + " = import(\"regexp\").MustCompile(\"a+|a+b\")\nif ow {\nre" + u + ".Longest()\nmust(re" + u + ".FindString(\"xaab\") == \"aab\")\n} else {\nmust(re" + u + ".FindString(\"xaab\") == \"aa\")\n}\nrec(import(\"regexp\").MustCompile(\"b+\").FindString(\"abbc\"))"
	},
	func(u string) string {
		// a nil-valued variable and a "no result" value, written through a pointer
		return "a" + u + " = nil\nb" + u + " = &a" + u + "\n*b" + u + " = base\nrec(nil)\nfunc f" + u + "() { }\ny" + u + " = f" + u + "()\np" + u + " = &y" + u + "\n*p" + u + " = base\nrec(f" + u + "())\nrec(nil == nil)\nif false { }\nrec([nil, f" + u + "()])"
	},
	func(u string) string {
		// absolute probes: results every environment must get whatever ran before in this process
		return "must(defined(\"base\"))\nmust(!defined(\"nope" + u + "\"))\nyy" + u + " = base\nmust(defined(\"yy" + u + "\"))\nr" + u + " = range(4)\nr0" + u + " = r" + u + "[0] + 0\nr" + u + "[0] = 99\nmust(range(4)[0] == r0" + u + ")\nk" + u + " = keys({\"a\": 1})\nk0" + u + " = k" + u + "[0] + \"\"\nk" + u + "[0] = \"zz\"\nmust(keys({\"a\": 1})[0] == k0" + u + ")\nt" + u + " = toIntSlice([1, 2])\nt0" + u + " = t" + u + "[0] + 0\nt" + u + "[0] = 7\nmust(toIntSlice([1, 2])[0] == t0" + u + ")"
	},
	func(u string) string {
		return "m" + u + " = import(\"math\")\nrec(m" + u + ".Abs(0 - base))\nsc" + u + " = import(\"strconv\")\nrec(sc" + u + ".Itoa(base))\nst" + u + " = import(\"strings\")\nrec(st" + u + ".Join([\"a\", \"b\"], \"-\"))\nrec(st" + u + ".Repeat(\"x\", 3))\nf" + u + " = import(\"fmt\")\nrec(f" + u + ".Sprintf(\"%v-%v\", base, ow))\nso" + u + " = import(\"sort\")\nl" + u + " = [3, 1, 2]\nso" + u + ".Slice(l" + u + ", func(i, j) { return l" + u + "[i] < l" + u + "[j] })\nrec(l" + u + ")"
	},
	func(u string) string {
		// one operator node, operands of a different kind in each environment
		return "k" + u + " = ow ? 1.5 : 2\nrec(k" + u + " + 1)\nk" + u + "++\nrec(k" + u + ")\ns" + u + " = ow ? \"s\" : base\nrec(s" + u + " + 1)\nrec(1 + s" + u + ")\nq" + u + " = ow ? base : 0.5\nq" + u + " += 2\nq" + u + "--\nrec(q" + u + " * 2)\nrec(q" + u + " - 1)\nrec(q" + u + " == 1)\nrec(-q" + u + ")"
	},
	func(u string) string {
		// closures created two blocks deep that escape their blocks
		return "fs" + u + " = []\nfor i" + u + " = 0; i" + u + " < 2; i" + u + "++ {\nif true {\nt" + u + " = base + i" + u + "\nfs" + u + " += func() { return t" + u + " }\n}\n}\nfor x" + u + " in [1, 2] { switch x" + u + " {\ncase 1:\nz" + u + " = x" + u + " * base\nfs" + u + " += func() { z" + u + "++; return z" + u + " }\n}\n}\ntry { w" + u + " = base; for true { fs" + u + " += func() { return w" + u + " }; break } } catch { }\nrec(fs" + u + "[0]())\nrec(fs" + u + "[1]())\nrec(fs" + u + "[2]())\nrec(fs" + u + "[2]())\nrec(fs" + u + "[3]())"
	},
	func(u string) string {
		return "recid(envid)\nrecid(import(\"strings\").envid)\nrecid(import(\"sort\").envid + 0)\nmodule Q" + u + " { func id() { return envid } }\nrecid(Q" + u + ".id())\nrecid(func() { return envid }())"
	},
	func(u string) string {
		return "n" + u + " = 6 * 7\nw" + u + " = &n" + u + "\n*w" + u + " = base\nrec(n" + u + ")\nrec(6 * 7)\nrec(*w" + u + ")"
	},
	func(u string) string {
		return "z" + u + " = 4000 + 95\ny" + u + " = &z" + u + "\n*y" + u + " += 1\nrec(4095 + 0)\nrec(z" + u + ")"
	},
	func(u string) string {
		return "t" + u + " = make([]int64, 2)\nt" + u + "[0] = 2 * 3\nq" + u + " = &t" + u + "[0]\n*q" + u + " = 9\nrec(t" + u + "[0])\nrec(2 * 3)"
	},
	func(u string) string {
		// values with reference-typed fields made from one type expression: each make is a fresh value
		return "st" + u + " = make(struct { N string, T map[string]int64, C chan int64 })\nrec(len(st" + u + ".T))\nst" + u + ".T[hostUp(\"k\")] = base\nst" + u + ".N = hostUp(\"n\")\nrec(len(st" + u + ".T))\nrec(st" + u + ".N)\nrec(len(st" + u + ".C))\n" +
			"ps" + u + " = make(*struct { A int64, M map[string]int64 })\nrec(ps" + u + ".A)\nps" + u + ".A = base\nps" + u + ".M[hostUp(\"x\")] = base\nrec(len(ps" + u + ".M))\nsu" + u + " = make(struct { N string, T map[string]int64, C chan int64 })\nrec(len(su" + u + ".T))\nrec(su" + u + ".N)"
	},
	func(u string) string {
		// type names are bindings like any other: float32 is bound differently by each configuration (or not at all),
		// uint32 / uint are bound by the script itself, at top level and inside a function
		return "rec(make([]float32, 1))\nrec(make(float32))\nmake(type uint32, w0)\nrec(make([]uint32, 1))\nfunc() { make(type uint, w0); rec(make([]uint, 1)) }()\nrec(make([]uint, 1))\nrec(make(map[string]float32))"
	},
	func(u string) string {
		// giving a struct shape a name is this environment's business: other environments keep seeing the shape
		return "" +
			"make(type Zn" + u + ", make(struct { Zq int64, Zr string }))\nzv" + u + " = make(Zn" + u + ")\nzv" + u + ".Zq = base\nrec(zv" + u + ".Zq)\nrec(typeOf(make(struct { Zq int64, Zs string })))"
	},
	func(u string) string {
		// values derived from a literal are the run's own: writing into them must not reach the literal
		return "bs" + u + " = toByteSlice(\"qdraft\")\nbs" + u + "[0] = toByteSlice(\"X\")[0]\nrec(toString(bs" + u + "))\nrec(\"qdraft\")\nrs" + u + " = toRuneSlice(\"rdraft\")\nrs" + u + "[0] = toRuneSlice(\"Y\")[0]\nrec(toString(rs" + u + "))\nrec(\"rdraft\")\n" +
			"rn" + u + " = import(\"math/rand\")\nfunc() {\nx = rn" + u + ".Intn(10)\nrec(x >= 0 && x < 10)\ny = rn" + u + ".Float64()\nrec(y < 1)\n}()"
	},
	func(u string) string {
		// a file loaded by several environments at once is loaded by each of them
		return "rec(load(libpath14))\nrec(libf14(base))\nrec(libv14)"
	},
	func(u string) string {
		// the nil a function returns after it caught an error is an ordinary value of this run
		return "func cf" + u + "() { try { nosuch" + u + " } catch ce" + u + " { } }\ncv" + u + " = cf" + u + "()\nrec(cv" + u + ")\ncp" + u + " = &cv" + u + "\n*cp" + u + " = base\nrec(cv" + u + ")\ntry { nosuch" + u + " } catch cg" + u + " { }\nrec(cf" + u + "())"
	},
	func(u string) string {
		// the address of a value that is no variable (what a function without a result returns, a missing map entry): a
		// pointer to a value of this expression's own - writing through it changes nothing else
		return "func nf" + u + "() { }\nnp" + u + " = &nf" + u + "()\n*np" + u + " = base\nrec(*np" + u + ")\nrec(nf" + u + "())\nfunc ng" + u + "() { return }\nnq" + u + " = &ng" + u + "()\n*nq" + u + " = base + 1\nrec(ng" + u + "())\nnm" + u + " = {}\nnr" + u + " = &nm" + u + "[\"k\"]\n*nr" + u + " = base + 2\nrec(nm" + u + "[\"k\"])\nrec(nil)\nrec(hnil)"
	},
	func(u string) string {
		// a variable the host bound by ADDRESS (an addressable value): every environment - a fresh one, a copy of a
		// prepared template - has a cell of its own behind the name
		return "rec(taddr)\ntp" + u + " = &taddr\n*tp" + u + " = base + 3\nrec(taddr)\nrec(*tp" + u + ")"
	},
	func(u string) string {
		// a variable that lives in the OUTERMOST scope of the environment's chain (two scopes out when the environment is a
		// copy of a prepared template): assigned and read back
		return "rec(troot)\ntroot = base + 4\nrec(troot)\nfunc tf" + u + "() { troot = troot + 1; return troot }\nrec(tf" + u + "())"
	},
	func(u string) string {
		// the same through a failed MEMBER lookup of a module
		return "module cm" + u + " { here = 1 }\nfunc cmf" + u + "() { try { cm" + u + ".nosuch } catch ce" + u + " { } }\ncmv" + u + " = cmf" + u + "()\nrec(cmv" + u + ")\ncmp" + u + " = &cmv" + u + "\n*cmp" + u + " = base\nrec(cmv" + u + ")\ntry { cm" + u + ".nosuch } catch cg" + u + " { }\nrec(cmf" + u + "())\nrec(hnil)"
	},
	func(u string) string {
		// a variable the host bound to nil is a variable like any other: writing through its address changes it and nothing else
		return "rec(hnil)\nhp" + u + " = &hnil\n*hp" + u + " = base\nrec(hnil)\nhq" + u + " = nil\nrec(hq" + u + ")\nrec(nil)"
	},
	func(u string) string {
		// how often the body of a for-in over a map runs does not depend on what the body adds to or removes from
		// the map (order aside): once per entry present when the loop started
		return "m" + u + " = {\"a\": 1, \"b\": 2, \"c\": 3}\nn" + u + " = 0\nfor k" + u + ", v" + u + " in m" + u + " {\nn" + u + "++\nm" + u + "[k" + u + " + \"x\"] = base\nm" + u + "[k" + u + " + \"y\"] = base\n}\nrec(n" + u + ")\nrec(len(m" + u + "))\n" +
			"o" + u + " = {\"p\": 1}\nc" + u + " = 0\nfor k" + u + " in o" + u + " {\nc" + u + "++\nfor j" + u + " = 0; j" + u + " < 40; j" + u + "++ { o" + u + "[\"q\" + j" + u + "] = j" + u + " }\n}\nrec(c" + u + ")"
	},
	func(u string) string {
		// an error value belongs to the run that raised it: what a catch block (or the host) writes into it stays there
		return "try { [1][base] } catch e" + u + " { e" + u + ".Message = hostUp(e" + u + ".Message); rec(e" + u + ".Message) }\n" +
			"func w" + u + "() { try { 7 % (base - base) } catch g" + u + " { g" + u + ".Message = \"w:\" + g" + u + ".Message; throw g" + u + " } }\ntry { w" + u + "() } catch f" + u + " { rec(f" + u + ".Message) }\n" +
			"try { throw \"t\" + base } catch h" + u + " { h" + u + ".Message = \"x\"; rec(h" + u + ".Message) }"
	},
	func(u string) string {
		// a member of an imported package is the importer's own binding: writing through its address stays here
		return "vp" + u + " = &import(\"vpk\").Default\nrec(*vp" + u + ")\n*vp" + u + " = base\nrec(*vp" + u + ")\nfunc vf" + u + "(m) { vq" + u + " = &m.Default; rec(*vq" + u + "); *vq" + u + " = hostUp(\"v\"); return *vq" + u + " }\nrec(vf" + u + "(import(\"vpk\")))\nrec(import(\"vpk\").Default)\nrec(import(\"vpk\").Name)"
	},
	func(u string) string {
		// large but legal requests (a channel buffer of 70 000 and of 1 100 000 items, a slice of 300 000): whether a
		// tree grants or refuses them, what a catch block writes into the refusal stays in this run
		return "func bz" + u + "(n) {\nbr" + u + " = 0\ntry { bc" + u + " = make(chan bool, n); br" + u + " = len(bc" + u + ") } catch be" + u + " { be" + u + ".Message = \"d:\" + be" + u + ".Message; br" + u + " = be" + u + ".Message }\nreturn br" + u + "\n}\n" +
			"rec(bz" + u + "(70000))\nrec(bz" + u + "(1100000))\n" +
			"func by" + u + "(n) {\nbq" + u + " = 0\ntry { bs" + u + " = make([]bool, n); bq" + u + " = len(bs" + u + ") } catch bf" + u + " { bf" + u + ".Message = hostUp(bf" + u + ".Message); throw bf" + u + " }\nreturn bq" + u + "\n}\n" +
			"try { rec(by" + u + "(300000)) } catch bg" + u + " { rec(bg" + u + ".Message) }"
	},
	func(u string) string {
		// one member expression, receivers of one type held in different ways; the order differs between configurations
		a := "b" + u + " = make(bb" + u + ".Buffer)\nb" + u + ".WriteString(hostUp(\"w\"))\nrec(b" + u + ".String())\nrec(b" + u + ".Len())"
		b := "for c" + u + " in [make(bb" + u + ".Buffer)] { c" + u + ".WriteString(\"x\"); rec(c" + u + ".String()) }"
		c := "p" + u + " = new(bb" + u + ".Buffer)\np" + u + ".WriteString(\"p\")\nrec(p" + u + ".String())"
		return "bb" + u + " = import(\"bytes\")\nif ow {\n" + a + "\n" + b + "\n" + c + "\n} else {\n" + c + "\n" + b + "\n" + a + "\n}"
	},
	func(u string) string {
		return "switch base {\ncase 10:\nrec(\"a\")\ncase 20:\nrec(\"b\")\ncase 30:\nrec(\"c\")\n}\nswitch hostUp(\"\") {\ncase \"up0:\":\nrec(0)\ncase \"up1:\":\nrec(1)\ndefault:\nrec(2)\n}\nswitch base / 10 {\ncase 1, 2:\nrec(\"lo\")\ncase 3, 4:\nrec(\"hi\")\n}"
	},
}

func Render(w *Work) string {
	var parts []string
	for i, t := range w.Stmts {
		parts = append(parts, templates[t%len(templates)](strconv.Itoa(i)))
	}
	if w.ErrTail {
		// (two defined names are equally close to the undefined one: what the error says must not depend on which of
		// them a map iteration meets first)
		parts = append(parts, "undefinedName1 = 1\nundefinedName2 = 2\nrec(\"before-error\")\nundefinedName + 1")
	} else {
		parts = append(parts, "base + 1")
	}
	return strings.Join(parts, "\n") + "\n"
}

type Prop struct{}

func init() {
	harness.Register(Prop{})
	// a package table of the host's own, written as env.go documents it ("reflect.Value must be valid ... For nil
	// must use NilValue")
	env.Packages["vpk"] = map[string]reflect.Value{"Default": env.NilValue, "Name": reflect.ValueOf("vpk")}
}

func (Prop) ID() string { return "C14" }

func (Prop) Gen(seed int64, tier string) *harness.Case {
	r := harness.Rand(seed)
	var w Work
	n := 2 + r.Intn(10)
	if tier == "thorough" && r.Intn(2) == 0 {
		n = 8 + r.Intn(16)
	}
	for i := 0; i < n; i++ {
		w.Stmts = append(w.Stmts, r.Intn(len(templates)))
	}
	w.Envs = 2 + r.Intn(3)
	if tier == "thorough" && r.Intn(3) == 0 {
		w.Envs = 4 + r.Intn(3)
	}
	w.Reruns = 1 + r.Intn(3)
	w.ErrTail = r.Intn(5) == 0
	w.OptMode = r.Intn(3)
	w.SharedBase = r.Intn(3) == 0
	w.TemplateCopy = !w.SharedBase && r.Intn(3) == 0
	wb, _ := json.Marshal(w)
	density := []int{2, 10, 30, 60}[r.Intn(4)]
	return &harness.Case{Prop: "C14", Seed: seed, Tier: tier, Workload: wb,
		Knobs: map[string]int{"stmts": n, "envs": w.Envs, "density": density}, Choices: harness.GenChoices(r, 4000, density), Source: Render(&w)}
}

// ---------------------------------------------------------------------------
// structural dump of a tree

var rvType = reflect.TypeOf(reflect.Value{})

func dumpTree(n interface{}) string {
	b := &strings.Builder{}
	seen := map[uintptr]bool{}
	var walk func(v reflect.Value, depth int)
	walk = func(v reflect.Value, depth int) {
		if depth > 200 {
			b.WriteString("<deep>")
			return
		}
		if !v.IsValid() {
			b.WriteString("<zero>")
			return
		}
		if v.Type() == rvType {
			// a runtime value living inside a syntax node
			var inner reflect.Value
			if v.CanInterface() {
				inner = v.Interface().(reflect.Value)
			} else {
				b.WriteString("<rv?>")
				return
			}
			if !inner.IsValid() {
				b.WriteString("rv<invalid>")
				return
			}
			switch inner.Kind() {
			case reflect.Func, reflect.Chan, reflect.Ptr, reflect.UnsafePointer:
				b.WriteString("rv<" + inner.Type().String() + ">")
			default:
				b.WriteString(fmt.Sprintf("rv<%s:%#v>", inner.Type(), inner.Interface()))
			}
			return
		}
		switch v.Kind() {
		case reflect.Ptr:
			if v.IsNil() {
				b.WriteString("nil")
				return
			}
			if seen[v.Pointer()] {
				b.WriteString("<again>")
				return
			}
			seen[v.Pointer()] = true
			b.WriteString("&")
			walk(v.Elem(), depth+1)
		case reflect.Interface:
			if v.IsNil() {
				b.WriteString("nil")
				return
			}
			walk(v.Elem(), depth+1)
		case reflect.Struct:
			b.WriteString(v.Type().Name() + "{")
			for i := 0; i < v.NumField(); i++ {
				b.WriteString(v.Type().Field(i).Name + ":")
				walk(v.Field(i), depth+1)
				b.WriteString(" ")
			}
			b.WriteString("}")
		case reflect.Map:
			// data a run may have parked in a node (lookup tables, memo maps): nil and empty differ
			if v.IsNil() {
				b.WriteString("map(nil)")
				return
			}
			type kv struct{ k, v string }
			var ents []kv
			outer := b
			it := v.MapRange()
			for it.Next() {
				b = &strings.Builder{}
				walk(it.Key(), depth+1)
				ents = append(ents, kv{k: b.String()})
			}
			sort.Slice(ents, func(i, j int) bool { return ents[i].k < ents[j].k })
			// values in key order, so that <again> marks do not depend on map iteration order
			for i := range ents {
				it = v.MapRange()
				for it.Next() {
					b = &strings.Builder{}
					walk(it.Key(), depth+1)
					if b.String() == ents[i].k {
						b = &strings.Builder{}
						walk(it.Value(), depth+1)
						ents[i].v = b.String()
						break
					}
				}
			}
			b = outer
			b.WriteString("map{")
			for _, e := range ents {
				b.WriteString(e.k + "=>" + e.v + ",")
			}
			b.WriteString("}")
		case reflect.Slice, reflect.Array:
			if v.Kind() == reflect.Slice && v.IsNil() {
				b.WriteString("[nil]")
				return
			}
			b.WriteString("[")
			for i := 0; i < v.Len(); i++ {
				walk(v.Index(i), depth+1)
				b.WriteString(",")
			}
			if v.Kind() == reflect.Slice && v.Cap() > v.Len() && v.Cap()-v.Len() <= 64 {
				// the storage behind the slice belongs to the tree as well: an append to a slice of the tree that has
				// spare capacity writes there without changing anything a walk over the elements would see
				all := v.Slice(0, v.Cap())
				b.WriteString("|spare:")
				for i := v.Len(); i < all.Len(); i++ {
					walk(all.Index(i), depth+1)
					b.WriteString(",")
				}
			}
			b.WriteString("]")
		case reflect.String:
			b.WriteString(strconv.Quote(v.String()))
		case reflect.Int, reflect.Int8, reflect.Int16, reflect.Int32, reflect.Int64:
			b.WriteString(strconv.FormatInt(v.Int(), 10))
		case reflect.Uint, reflect.Uint8, reflect.Uint16, reflect.Uint32, reflect.Uint64, reflect.Uintptr:
			b.WriteString(strconv.FormatUint(v.Uint(), 10))
		case reflect.Float32, reflect.Float64:
			b.WriteString(strconv.FormatFloat(v.Float(), 'g', -1, 64))
		case reflect.Bool:
			b.WriteString(strconv.FormatBool(v.Bool()))
		case reflect.Func, reflect.Chan, reflect.UnsafePointer:
			if v.IsNil() {
				b.WriteString("<" + v.Kind().String() + " nil>")
			} else {
				b.WriteString("<" + v.Kind().String() + ">")
			}
		default:
			b.WriteString("<" + v.Kind().String() + ">")
		}
	}
	walk(reflect.ValueOf(n), 0)
	return b.String()
}

// ---------------------------------------------------------------------------

var envCounter atomic.Int64

// libFile14 is a script file written once per process (inside the worker's scratch directory): every
// environment that loads it gets its own definitions.
var libFile14 = func() string {
	dir, err := filepath.Abs(fmt.Sprintf("c14lib-%d", os.Getpid()))
	if err == nil {
		err = os.MkdirAll(dir, 0o755)
	}
	if err != nil {
		return "/nonexistent-c14"
	}
	p := filepath.Join(dir, "lib.ank")
	os.WriteFile(p, []byte("libv14 = 0\nfor i = 0; i < 20; i++ { libv14 += i }\nfunc libf14(x) { return [x, libv14] }\nlibf14(1)\n"), 0o644)
	return p
}()

type runOut struct {
	cross   string
	val     string
	err     string
	trace   []string
	binds   string
	paniced string
}

func render(v interface{}) string {
	switch x := v.(type) {
	case nil:
		return "nil"
	case *env.Env:
		return "module"
	case error:
		return "error(" + x.Error() + ")"
	}
	rv := reflect.ValueOf(v)
	switch rv.Kind() {
	case reflect.Func:
		return "func"
	case reflect.Ptr:
		return "ptr"
	case reflect.Chan, reflect.UnsafePointer:
		return "chan" // %#v would print an address
	case reflect.Struct:
		// field by field: a channel or pointer field would print an address
		parts := []string{}
		for i := 0; i < rv.NumField(); i++ {
			f := rv.Field(i)
			if !f.CanInterface() {
				parts = append(parts, rv.Type().Field(i).Name+":?")
				continue
			}
			parts = append(parts, rv.Type().Field(i).Name+":"+render(f.Interface()))
		}
		return rv.Type().String() + "{" + strings.Join(parts, " ") + "}"
	}
	return fmt.Sprintf("%T:%#v", v, v)
}

// mkEnv builds configuration i: the same names bound to different things.
func mkEnv(i int, out *runOut, mu *sync.Mutex) *env.Env {
	var e *env.Env
	if sharedTemplate != nil {
		e = sharedTemplate.DeepCopy()
		// one name that only this configuration binds, first thing after the copy
		e.Define("only"+strconv.Itoa(i), int64(i))
	} else if sharedBase != nil {
		e = sharedBase.NewEnv()
	} else {
		e = env.NewEnv()
		vm.Run(e, nil, baseLib())
	}
	if sharedTemplate == nil {
		e.Define("troot", int64(5))
		cell := reflect.New(reflect.TypeOf(int64(0))).Elem()
		cell.SetInt(7)
		e.DefineValue("taddr", cell)
	}
	core.Import(e)
	e.Define("base", int64(10*(i+1)))
	e.Define("ow", i%2 == 0)
	e.Define("rec", func(v interface{}) {
		simrt.Yield("probe")
		mu.Lock()
		out.trace = append(out.trace, render(v))
		mu.Unlock()
	})
	e.Define("hostA", func(x int64) int64 { simrt.Yield("host"); return x*100 + int64(i) })
	e.Define("hostUp", func(s string) string { return "up" + strconv.Itoa(i) + ":" + s })
	// type names are per-environment bindings too: the same name, a different type in each configuration
	switch i % 3 {
	case 0:
		e.DefineType("float32", int64(0))
	case 2:
		e.DefineType("float32", "")
	}
	e.Define("libpath14", libFile14)
	// a name the host binds to nil: one more per-environment binding
	e.Define("hnil", nil)
	// ... through every door a host has: the reflect-level calls with the package's own nil value
	switch i % 3 {
	case 1:
		e.SetValue("hnil", env.NilValue)
	case 2:
		e.DefineValue("hnil", env.NilValue)
	}
	if i%2 == 0 {
		e.Define("w0", float64(1.5))
	} else {
		e.Define("w0", "s")
	}
	// a process-unique identity per environment: an absolute isolation probe
	// (comparing with a solo run cannot see a leak that is the same in every run)
	id := 100000 + envCounter.Add(1)
	e.Define("envid", id)
	e.Define("must", func(ok bool) {
		if !ok {
			mu.Lock()
			out.cross = fmt.Sprintf("environment %d: a check that holds in a pristine process failed (must(false)), after trace %v", i, out.trace)
			mu.Unlock()
		}
	})
	e.Define("recid", func(v interface{}) {
		if v != interface{}(id) {
			mu.Lock()
			out.cross = fmt.Sprintf("environment %d read %#v where its own binding envid=%d was expected", i, v, id)
			mu.Unlock()
		}
	})
	return e
}

func bindings(e *env.Env) string {
	syms := e.GetValueSymbols()
	sort.Strings(syms)
	var parts []string
	for _, s := range syms {
		if s == "envid" || strings.HasPrefix(s, "blib") {
			continue
		}
		v, _ := e.Get(s)
		parts = append(parts, s+"="+render(v))
	}
	return strings.Join(parts, ";")
}

var sharedOptions = &vm.Options{Debug: false}

func optionsFor(mode int) *vm.Options {
	switch mode {
	case 1:
		return nil
	case 2:
		return sharedOptions
	}
	return &vm.Options{Debug: false}
}

func execute(stmt ast.Stmt, i int, ctx context.Context, optMode ...int) *runOut {
	out := &runOut{}
	var mu sync.Mutex
	e := mkEnv(i, out, &mu)
	func() {
		defer func() {
			if x := recover(); x != nil {
				out.paniced = fmt.Sprint(x)
			}
		}()
		mode := 0
		if len(optMode) > 0 {
			mode = optMode[0]
		}
		v, err := vm.RunContext(ctx, e, optionsFor(mode), stmt)
		out.val = render(v)
		if err != nil {
			out.err = err.Error()
			if ve, ok := err.(*vm.Error); ok {
				// the host owns the error it was handed: annotating it must not show up in any other run
				ve.Message = "annotated by the host of environment " + strconv.Itoa(i) + ": " + ve.Message
			}
		}
	}()
	out.binds = bindings(e)
	return out
}

func (a *runOut) diff(b *runOut) string {
	if a.cross != "" {
		return "cross-talk between environments: " + a.cross
	}
	if a.paniced != b.paniced {
		return fmt.Sprintf("panic %q vs %q", a.paniced, b.paniced)
	}
	if a.val != b.val {
		return fmt.Sprintf("value %s vs solo %s", a.val, b.val)
	}
	if a.err != b.err {
		return fmt.Sprintf("error %q vs solo %q", a.err, b.err)
	}
	if strings.Join(a.trace, "|") != strings.Join(b.trace, "|") {
		return fmt.Sprintf("probe trace\n   %s\n vs solo\n   %s", strings.Join(a.trace, " | "), strings.Join(b.trace, " | "))
	}
	if a.binds != b.binds {
		return fmt.Sprintf("final bindings\n   %s\n vs solo\n   %s", a.binds, b.binds)
	}
	return ""
}

func packagesDigest() string {
	var names []string
	for p := range env.Packages {
		names = append(names, p)
	}
	sort.Strings(names)
	var b strings.Builder
	for _, p := range names {
		tbl := env.Packages[p]
		var ks []string
		for k := range tbl {
			ks = append(ks, k)
		}
		sort.Strings(ks)
		b.WriteString(p + ":")
		for _, k := range ks {
			v := tbl[k]
			b.WriteString(k + "/" + v.Type().String())
			if v.Kind() == reflect.Func {
				b.WriteString(fmt.Sprintf("@%x", v.Pointer()))
			}
			b.WriteString(",")
		}
		tt := env.PackageTypes[p]
		ks = ks[:0]
		for k := range tt {
			ks = append(ks, k)
		}
		sort.Strings(ks)
		for _, k := range ks {
			b.WriteString("T" + k + "/" + tt[k].String() + ",")
		}
	}
	return harness.HashStrings(b.String())
}

const globalsSrc = "r = []\nr += 4095 + 0\nr += 4095 + 1\nr += -1 + 0\nr += -2 + 1\nr += -2 + 0\ni = 5\ni++\nr += i\ni--\ni--\nr += i\nr += nil == nil\nr += true\nr += false\nr += !true\nj = 4095\nj++\nr += j\n" +
	// relational checks (must all be true whatever the builtins compute): an import taken after another import's
	// member was overwritten behaves like the original; the nil literal, a missing result and a nil element agree
	"up = import(\"strings\").ToUpper\nlo = import(\"strings\").ToLower\ns = import(\"strings\")\ns.ToUpper = func(a) { return \"hacked\" }\nt = import(\"strings\")\n" +
	"q = []\nq += t.ToUpper(\"y\") == up(\"y\")\nq += s.ToUpper(\"y\") == \"hacked\"\n" +
	"import(\"strings\").ToLower = func(a) { return \"hacked\" }\nq += import(\"strings\").ToLower(\"Z\") == lo(\"Z\")\n" +
	"r += typeOf(make(struct { Zq int64, Zr string }))\nr += typeOf([make(struct { Zq int64, Zr string })])\nsm = make(struct { N string, T map[string]int64 })\nr += len(sm.T)\nsm.T[\"k\"] = 1\nsm.N = \"w\"\nsn = make(struct { N string, T map[string]int64 })\nr += len(sn.T)\nr += sn.N\n" +
	// methods and fields reached through values of one type that differ in how they are held (variable,
	// loop variable, pointer): whatever resolving a member remembers must not depend on who asked first
	"bb = import(\"bytes\")\nb1 = make(bb.Buffer)\nb1.WriteString(\"hello\")\nr += b1.String()\nfor b2 in [make(bb.Buffer)] { b2.WriteString(\"x\"); r += b2.String() }\nb3 = new(bb.Buffer)\nb3.WriteString(\"again\")\nr += b3.String()\nr += b1.Len()\n" +
	"tt = import(\"time\")\nd1 = tt.Second\nr += d1.String()\nfor d2 in [tt.Second] { r += d2.String() }\n" +
	"func noresult() { }\nq += typeOf(nil) == typeOf([nil][0])\nq += typeOf(noresult()) == typeOf(nil)\nq += typeOf(nil) != typeOf(1)\n[r, q]\n"

const relationalWant = "[true true true true true true]"

// the loop is driven by a host slice, so that a corrupted cache slot cannot make the scan itself diverge
const scanSrc = "s = 0\nq = 0\nfor v in vals {\nw = v + 0\ns += w\nq += w * w\n}\n[s, q]\n"

var scanStmt, _ = parser.ParseSrc(scanSrc)

var scanVals = func() []int64 {
	var vs []int64
	for i := int64(-2); i <= 4097; i++ {
		vs = append(vs, i)
	}
	return vs
}()

// ScanSmallInts computes every integer of the cached range (and one on each
// side) and checks sum and sum of squares: any overwritten cache slot shows.
func ScanSmallInts() string {
	e := env.NewEnv()
	e.Define("vals", scanVals)
	v, err := vm.Run(e, &vm.Options{}, scanStmt)
	if err != nil {
		return "scan script failed: " + err.Error()
	}
	got := fmt.Sprint(v)
	scanOnce.Do(func() { scanRef = got })
	if got != scanRef {
		return "computing every integer in -2..4097: [sum, sum of squares] = " + got + ", was " + scanRef + " when this process started"
	}
	return ""
}

// ProcessGlobals evaluates expressions that depend on the process-wide shared
// values and returns a description of any deviation.
func ProcessGlobals() string {
	v, err := vm.Execute(core.Import(env.NewEnv()), &vm.Options{}, globalsSrc)
	if err != nil {
		return "probe script failed: " + err.Error()
	}
	// What these expressions evaluate to is the language's business (other properties). What matters
	// here is that it is the same before and after executions: the reference is the first evaluation
	// of this process, made before any generated program has run.
	pair, ok := v.([]interface{})
	if !ok || len(pair) != 2 {
		return fmt.Sprintf("probe script returned %#v", v)
	}
	if rel := fmt.Sprint(pair[1]); rel != relationalWant {
		return "relational checks (import isolation, nil values) gave " + rel + ", want " + relationalWant
	}
	got := fmt.Sprint(pair[0])
	globalsOnce.Do(func() { globalsRef = got })
	if got != globalsRef {
		return "got " + got + ", the same script gave " + globalsRef + " when this process started"
	}
	if x, err := vm.Execute(env.NewEnv(), nil, "import(\"vpk\").Default"); err != nil || x != nil {
		return fmt.Sprintf("a fresh environment importing a host package whose table binds Default to the documented env.NilValue reads Default as %v (error %v)", x, err)
	}
	if x, _ := env.NewEnv().Get("nosuchsymbol"); x != nil {
		return fmt.Sprintf("Get of an undefined symbol on a brand-new environment returns %v next to its error", x)
	}
	return typeBindings()
}

// typeBindings: a type name bound by one environment (by the host or by the script) is that environment's
// business only. Judged on the host side, against the types the host itself handed in.
func typeBindings() string {
	run := func(e *env.Env, src string) reflect.Type {
		v, err := vm.Execute(e, &vm.Options{}, src)
		if err != nil {
			return reflect.TypeOf(err)
		}
		return reflect.TypeOf(v)
	}
	plain1 := run(env.NewEnv(), "make([]float32, 1)")
	sh := env.NewEnv()
	sh.DefineType("float32", int64(0))
	if t := run(sh, "make([]float32, 1)"); t != reflect.TypeOf([]int64{}) {
		return fmt.Sprintf("an environment whose host bound the type name float32 to int64 got %v from make([]float32, 1)", t)
	}
	if t := run(env.NewEnv(), "make([]float32, 1)"); t != plain1 || t == reflect.TypeOf([]int64{}) {
		return fmt.Sprintf("a fresh environment got %v from make([]float32, 1), %v before another environment bound that name", t, plain1)
	}
	// a nil bound by the host of one environment is not the nil of any other
	hn := env.NewEnv()
	hn.Define("x", nil)
	hn.Define("five", int64(5))
	vm.Execute(hn, &vm.Options{}, "p = &x\n*p = five")
	fresh := env.NewEnv()
	fresh.Define("y", nil)
	if v, err := vm.Execute(fresh, &vm.Options{}, "y"); err != nil || v != nil {
		return fmt.Sprintf("a fresh environment whose host bound y to nil reads y as %#v (error %v) after a script of another environment wrote through the address of its own host-bound nil", v, err)
	}
	// a file that was replaced is loaded anew, whatever its size and time stamp say
	if dir := filepath.Dir(libFile14); dir != "." {
		f := filepath.Join(dir, "replaced.ank")
		load := func() string {
			e := core.Import(env.NewEnv())
			e.Define("f", f)
			v, err := vm.Execute(e, &vm.Options{}, "load(f)")
			return fmt.Sprintf("%v|%v", v, err)
		}
		os.WriteFile(f, []byte("rq = 1\nrq + 10\n"), 0o644)
		st, _ := os.Stat(f)
		first := load()
		os.WriteFile(f, []byte("rq = 2\nrq + 20\n"), 0o644) // same length
		if st != nil {
			os.Chtimes(f, st.ModTime(), st.ModTime()) // what cp -p, rsync -t or tar do
		}
		second := load()
		os.WriteFile(f, []byte("rq = 1\nrq + 10\n"), 0o644)
		if st != nil {
			os.Chtimes(f, st.ModTime(), st.ModTime())
		}
		third := load()
		if second == first || third != first {
			return fmt.Sprintf("a script file was replaced (same length, time stamp preserved) between loads in fresh environments: the loads returned %s, then %s, then (first content again) %s", first, second, third)
		}
	}
	// ... nor is the nil a run is left with after a caught error
	ce := env.NewEnv()
	ce.Define("five", int64(5))
	vm.Execute(ce, &vm.Options{}, "func f() { try { nosuch } catch e { } }\nv = f()\np = &v\n*p = five")
	if v, err := vm.Execute(env.NewEnv(), &vm.Options{}, "try { zzz } catch e { }"); err != nil || v != nil {
		return fmt.Sprintf("a fresh environment evaluates `try { zzz } catch e { }` to %#v (error %v) after a script of another environment wrote through the address of a variable holding the result of such a statement", v, err)
	}
	own := env.NewEnv()
	own.Define("w0", float64(1.5))
	plain2 := run(env.NewEnv(), "make([]uint32, 1)")
	if t := run(own, "make(type uint32, w0)\nmake([]uint32, 1)"); t != reflect.TypeOf([]float64{}) {
		return fmt.Sprintf("a script that bound the type name uint32 to the type of a host float64 got %v from make([]uint32, 1)", t)
	}
	if t := run(env.NewEnv(), "make([]uint32, 1)"); t != plain2 || t == reflect.TypeOf([]float64{}) {
		return fmt.Sprintf("a fresh environment got %v from make([]uint32, 1), %v before another script bound that name", t, plain2)
	}
	return ""
}

var (
	globalsOnce sync.Once
	globalsRef  string
	scanOnce    sync.Once
	scanRef     string
)

func (Prop) Run(t *testing.T, c *harness.Case, verbose bool) *harness.Result {
	var w Work
	res := &harness.Result{Counters: map[string]int{}}
	if err := json.Unmarshal(c.Workload, &w); err != nil {
		res.Inconclusive = "bad workload"
		return res
	}
	src := Render(&w)
	shared, err := parser.ParseSrc(src)
	if err != nil {
		res.Inconclusive = "generator produced a script that does not parse: " + err.Error() + "\n" + src
		return res
	}
	fail := func(class, detail string) *harness.Result {
		res.Violation = class
		// whatever the class, a run that left process-wide state corrupted taints this worker process
		res.Tainted = class == "process-globals" || ProcessGlobals() != "" || ScanSmallInts() != ""
		res.Detail = detail + "\n" + src
		res.Signature = class
		return res
	}
	defer withBase(&w)()
	if w.SharedBase {
		res.Counters["executions_share_a_base_environment"]++
	}
	if w.TemplateCopy {
		res.Counters["executions_on_deep_copies_of_one_template"]++
	}
	dump0 := dumpTree(shared)
	pk0 := packagesDigest()
	if g := ProcessGlobals(); g != "" {
		return fail("process-globals", "process-wide values are already corrupted before this case: "+g)
	}
	// solo references on separately parsed trees
	solo := make([]*runOut, w.Envs)
	for i := 0; i < w.Envs; i++ {
		st, _ := parser.ParseSrc(src)
		solo[i] = execute(st, i, context.Background(), w.OptMode)
		if solo[i].paniced != "" {
			return fail("panic", "solo run panicked: "+solo[i].paniced)
		}
		if solo[i].cross != "" {
			return fail("cross-talk", "even a solo run observed another environment's binding: "+solo[i].cross)
		}
		// absolute expectations: every template is written to succeed, the script ends with `base + 1`
		// Absolute expectation, kept deliberately coarse so that it does not depend on what values the
		// language computes (other properties): every template is written to succeed, so a solo run fails
		// exactly when the program ends with the deliberate reference to an undefined name.
		if (solo[i].err != "") != w.ErrTail {
			return fail("solo-differs-from-specification", fmt.Sprintf("solo run in environment %d returned value %s error %q; the program is written to %s (trace: %s)",
				i, solo[i].val, solo[i].err, map[bool]string{true: "end with an error", false: "succeed"}[w.ErrTail], strings.Join(solo[i].trace, " | ")))
		}
	}
	if d := dumpTree(shared); d != dump0 {
		return fail("tree-changed", "the shared tree changed although only separately parsed copies were run (shared node data between parses?)")
	}
	// sequential re-runs of the shared tree
	for k := 0; k < w.Reruns; k++ {
		o := execute(shared, 0, context.Background(), w.OptMode)
		if d := o.diff(solo[0]); d != "" {
			return fail("rerun-differs", fmt.Sprintf("sequential run #%d of the shared tree differs from the solo run: %s", k+1, d))
		}
		if d := dumpTree(shared); d != dump0 {
			return fail("tree-changed", fmt.Sprintf("executing the tree changed it (after sequential run #%d): %s", k+1, firstDiff(dump0, d)))
		}
	}
	res.Counters["sequential_reruns"] = w.Reruns
	// concurrent runs of the shared tree
	outs := make([]*runOut, w.Envs)
	var sim *simrt.Sim
	leaked := harness.Bubble(t, func() {
		sim = simrt.New(c.Choices, 40000)
		ctx := sim.NewCtx()
		for i := 0; i < w.Envs; i++ {
			i := i
			sim.Spawn(fmt.Sprintf("c%d", i), func() { outs[i] = execute(shared, i, ctx, w.OptMode) })
		}
		res.Outcome = sim.Run()
		sim.Teardown(func() { ctx.Cancel() })
	})
	res.Leaked = leaked
	res.Steps, res.Switches, res.Contended = sim.Step, sim.Switches, sim.Contended
	res.Tasks = len(sim.Tasks())
	res.LogHash = fmt.Sprintf("%016x", sim.LogHash())
	for k, v := range sim.Counters {
		res.Counters[k] = v
	}
	res.Shape = harness.HashStrings(string(c.Workload), res.LogHash)
	res.Nontrivial = sim.Switches > 0
	res.Counters["concurrent_executions"] = w.Envs
	if verbose {
		res.Log = append(res.Log, "source:\n"+src)
		for i, o := range solo {
			res.Log = append(res.Log, fmt.Sprintf("solo %d: val=%s err=%q trace=%s", i, o.val, o.err, strings.Join(o.trace, " | ")))
		}
	}
	for _, v := range sim.Viol {
		return fail(v.Class, v.Detail)
	}
	if res.Outcome != "done" {
		return fail("liveness", "concurrent executions did not finish: outcome "+res.Outcome)
	}
	for i, o := range outs {
		if o == nil {
			return fail("liveness", fmt.Sprintf("execution %d produced no result", i))
		}
		if d := o.diff(solo[i]); d != "" {
			return fail("concurrent-differs", fmt.Sprintf("concurrent execution %d (of %d on one shared tree, separate environments) differs from its solo run: %s", i, w.Envs, d))
		}
	}
	if d := dumpTree(shared); d != dump0 {
		return fail("tree-changed", "executing the tree concurrently changed it: "+firstDiff(dump0, d))
	}
	if other, perr := parser.ParseSrc("q = [[7, 8], [9]]\nq[0][0]++\nfunc zz(a) { return a + 1.5 }\nzz(\"s\")\n" + src); perr == nil && other != nil {
		if d := dumpTree(shared); d != dump0 {
			return fail("tree-changed", "parsing another source changed the shared tree: "+firstDiff(dump0, d))
		}
	}
	if _, e1 := parser.ParseSrc("a = 1\nb = 1..5\n"); e1 != nil {
		before := fmt.Sprintf("%v|%#v", e1, e1)
		parser.ParseSrc("x = 1\ny = 2\nfunc (")
		parser.ParseSrc(src)
		if after := fmt.Sprintf("%v|%#v", e1, e1); after != before {
			return fail("parse-not-repeatable", "an error returned by an earlier rejected parse changed when other sources were parsed later: "+before+" -> "+after)
		}
	}
	if again, perr := parser.ParseSrc(src); perr != nil || dumpTree(again) != dump0 {
		return fail("parse-not-repeatable", "parsing the same source again gives a different tree (positions included): the parser keeps state between calls")
	}
	if pk := packagesDigest(); pk != pk0 {
		return fail("packages-changed", "env.Packages / env.PackageTypes changed during execution")
	}
	if g := ProcessGlobals(); g != "" {
		return fail("process-globals", "process-wide shared values were modified by execution: "+g)
	}
	if g := ScanSmallInts(); g != "" {
		return fail("process-globals", "process-wide shared values were modified by execution: "+g)
	}
	return res
}

func firstDiff(a, b string) string {
	n := len(a)
	if len(b) < n {
		n = len(b)
	}
	i := 0
	for i < n && a[i] == b[i] {
		i++
	}
	lo := i - 60
	if lo < 0 {
		lo = 0
	}
	ha, hb := i+80, i+80
	if ha > len(a) {
		ha = len(a)
	}
	if hb > len(b) {
		hb = len(b)
	}
	return fmt.Sprintf("before: ...%s...  after: ...%s...", a[lo:ha], b[lo:hb])
}

// RunReal is the auxiliary race leg: the shared tree from real goroutines.
func RunReal(c *harness.Case) string {
	var w Work
	if json.Unmarshal(c.Workload, &w) != nil {
		return ""
	}
	src := Render(&w)
	shared, err := parser.ParseSrc(src)
	if err != nil {
		return ""
	}
	defer withBase(&w)()
	// sequential reference runs first (separately parsed tree), then the concurrent ones must equal them
	solo := make([]*runOut, w.Envs)
	vsolo := make([]*runOut, w.Envs)
	variant := func(i int) string {
		tag := strings.Repeat(fmt.Sprintf("v%d-", i), 6)
		return fmt.Sprintf("/* variant %s */\nrawv = `%s`\nrec(rawv)\n/* %s */\n", tag, tag, tag) + src
	}
	for i := range solo {
		st, _ := parser.ParseSrc(src)
		solo[i] = execute(st, i, context.Background(), 0)
		if vt, perr := parser.ParseSrc(variant(i)); perr == nil {
			vsolo[i] = execute(vt, i, context.Background(), 0)
		}
	}
	var wg sync.WaitGroup
	start := make(chan struct{})
	msgs := make([]string, w.Envs)
	for i := 0; i < w.Envs; i++ {
		wg.Add(1)
		go func(i int) {
			defer wg.Done()
			<-start
			mode := w.OptMode
			if mode == 0 {
				mode = 2 // on real goroutines always share: that is where a per-Options scratch area would race
			}
			for rep := 0; rep < 3; rep++ {
				tree, ref := shared, solo[i]
				if rep == 1 && vsolo[i] != nil {
					// concurrent parses of DIFFERENT sources: the parser must not keep state between calls
					own, perr := parser.ParseSrc(variant(i))
					if perr != nil {
						msgs[i] = "a source that parses alone was rejected while other goroutines were parsing: " + perr.Error()
						continue
					}
					tree, ref = own, vsolo[i]
				}
				o := execute(tree, i, context.Background(), mode)
				if o.paniced != "" {
					msgs[i] = o.paniced
				}
				if o.cross != "" {
					msgs[i] = o.cross
				}
				if d := o.diff(ref); d != "" && ref.paniced == "" {
					msgs[i] = fmt.Sprintf("concurrent execution %d on real goroutines differs from its sequential run: %s", i, d)
				}
			}
		}(i)
	}
	close(start)
	wg.Wait()
	for _, m := range msgs {
		if m != "" {
			return m
		}
	}
	return ""
}

func (Prop) Shrink(c *harness.Case) []*harness.Case {
	var w Work
	if json.Unmarshal(c.Workload, &w) != nil {
		return nil
	}
	var out []*harness.Case
	emit := func(nw Work) {
		d := c.Clone()
		d.Workload, _ = json.Marshal(nw)
		d.Source = Render(&nw)
		out = append(out, d)
	}
	for i := range w.Stmts {
		nw := w
		nw.Stmts = append(append([]int{}, w.Stmts[:i]...), w.Stmts[i+1:]...)
		emit(nw)
	}
	if w.Envs > 2 {
		nw := w
		nw.Envs--
		emit(nw)
	}
	if w.Reruns > 1 {
		nw := w
		nw.Reruns = 1
		emit(nw)
	}
	if w.ErrTail {
		nw := w
		nw.ErrTail = false
		emit(nw)
	}
	return out
}

// SharedLibraryReal: a library defined by an earlier run in a base environment, used at the same time by runs on
// child environments of that base (a common way to embed: one prelude, many requests). Each run must yield what
// it yields alone, however deep the others are inside the library at that moment. Real goroutines only: the
// depth makes it far too long for the step-bounded simulation.
func SharedLibraryReal(round int) string {
	base := core.Import(env.NewEnv())
	if _, err := vm.Execute(base, nil, "func libdepth(n) { if n > 0 { return libdepth(n - 1) + 1 }; return 0 }\nfunc libsum(l) { t = 0; for x in l { t += x }; return t }"); err != nil {
		return ""
	}
	depth := 1200 + 100*(round%8)
	src := fmt.Sprintf("[libdepth(%d), libsum([1, 2, 3])]", depth)
	alone, aerr := vm.Execute(base.NewEnv(), nil, src)
	want := fmt.Sprintf("%v|%v", alone, aerr)
	const runs = 12
	var wg sync.WaitGroup
	got := make([]string, runs)
	start := make(chan struct{})
	for i := 0; i < runs; i++ {
		wg.Add(1)
		go func(i int) {
			defer wg.Done()
			defer func() {
				if x := recover(); x != nil {
					got[i] = fmt.Sprintf("panic: %v", x)
				}
			}()
			<-start
			v, err := vm.Execute(base.NewEnv(), nil, src)
			got[i] = fmt.Sprintf("%v|%v", v, err)
		}(i)
	}
	close(start)
	wg.Wait()
	for i, g := range got {
		if g != want {
			return fmt.Sprintf("run %d of %d concurrent runs on child environments of one base (library defined by an earlier run) returned %s; alone it returns %s\n%s", i, runs, g, want, src)
		}
	}
	return ""
}

var (
	stormOnce  sync.Once
	stormFirst [2]string
)

// FuncTypeStormReal: whatever the interpreter remembers per Go function TYPE (how a function of that type is called,
// whether it is a script function) is process-wide state shared by every run. A host offers functions of types the
// interpreter has never seen; here a fresh one per round (func(int64, ...[n]int64) int64) is called in a tight loop by half
// of the runs while the other half call script functions of several arities, all on separate environments. Every run
// must yield what the same script yields alone - and what it yielded the first time in this process.
func FuncTypeStormReal(round int) string {
	n := 1 + (round*131)%4000
	i64 := reflect.TypeOf(int64(0))
	var fts []reflect.Type
	var hosts []interface{}
	for k := 0; k < 3; k++ {
		ft := reflect.FuncOf([]reflect.Type{i64, reflect.SliceOf(reflect.ArrayOf(n+4000*k, i64))}, []reflect.Type{i64}, true)
		fts = append(fts, ft)
		hosts = append(hosts, reflect.MakeFunc(ft, func(a []reflect.Value) []reflect.Value {
			return []reflect.Value{reflect.ValueOf(a[0].Int() + 1)}
		}).Interface())
	}
	ft := fts[0]
	srcs := [2]string{
		"func a0() { return 1 }\nfunc a1(x) { return x }\nfunc a2(x, y) { return y }\nfunc a5(a, b, c, d, e) { return e }\nfunc av(x...) { return len(x) }\nfunc ad() { defer a0(); return 2 }\nl = []\nfor i = 0; i < 12; i++ { l += [a0(), a1(i), a2(i, 3), a5(1, 2, 3, 4, i), av(1, 2), ad()] }\nl",
		"func hd(i) { defer hostT(i); return hostT(i) }\nl = []\nfor i = 0; i < 12; i++ { l += [hostT(i), hd(i), hostU(i), hostV(i)] }\nl",
	}
	run := func(k int) string {
		e := env.NewEnv()
		e.Define("hostT", hosts[0])
		e.Define("hostU", hosts[1])
		e.Define("hostV", hosts[2])
		v, err := vm.Execute(e, nil, srcs[k])
		return fmt.Sprintf("%v|%v", v, err)
	}
	alone := [2]string{run(0), run(1)}
	stormOnce.Do(func() { stormFirst = alone })
	for k := range alone {
		if alone[k] != stormFirst[k] {
			return fmt.Sprintf("process-wide state was left behind by earlier concurrent runs: run alone now, the script below yields %s; the first time in this process it yielded %s\n%s", alone[k], stormFirst[k], srcs[k])
		}
	}
	const runs = 10
	var wg sync.WaitGroup
	msgs := make([]string, runs)
	start := make(chan struct{})
	end := time.Now().Add(20 * time.Millisecond)
	for i := 0; i < runs; i++ {
		wg.Add(1)
		go func(i int) {
			defer wg.Done()
			defer func() {
				if x := recover(); x != nil {
					msgs[i] = fmt.Sprintf("panic: %v", x)
				}
			}()
			<-start
			for time.Now().Before(end) && msgs[i] == "" {
				if g := run(i % 2); g != alone[i%2] {
					msgs[i] = fmt.Sprintf("one of %d concurrent runs on separate environments (half of them calling a host function of type %v, half calling script functions) yielded %s; alone it yields %s\n%s", runs, ft, g, alone[i%2], srcs[i%2])
				}
			}
		}(i)
	}
	close(start)
	wg.Wait()
	for _, m := range msgs {
		if m != "" {
			return m
		}
	}
	return ""
}
