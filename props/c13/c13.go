// Package c13: an environment is safe to share between goroutines.
//
// 2-3 client tasks run short operation sequences on one shared scope S (parent
// P is never written; an optional private child K of S is used by one client so
// that walking operations pass through S). Every lock acquisition is a
// scheduling decision taken from the case's choice list.
//
// Oracles: linearizability of the recorded history against a two-dictionary
// model (porcupine), the lockset invariant (simrt.Access probes inserted by the
// rewriter), no deadlock / no unlock of an unheld lock / no panic.
package c13

import (
	"encoding/json"
	"fmt"
	"reflect"
	"sort"
	"strconv"
	"strings"
	"sync"
	"testing"
	"time"

	"github.com/anishathalye/porcupine"
	"github.com/mattn/anko/env"

	"verifsim/harness"
	"verifsim/simrt"
)

type Op struct {
	Kind string `json:"k"`
	Name string `json:"n,omitempty"`
	Val  int    `json:"v,omitempty"`
	Via  string `json:"via,omitempty"` // "" = S, "K" = through the private child
}

type Work struct {
	Clients [][]Op         `json:"clients"`
	Rooted  bool           `json:"rooted"`         // S has no parent
	Child   bool           `json:"child"`          // client 0 owns a private child K of S
	KMod    bool           `json:"kmod,omitempty"` // K is a module of S (bound as "k" in S): paths lead from S into K while K's operations walk up into S
	UY      bool           `json:"uy,omitempty"`   // releasing a lock is a scheduling point as well
	SInit   map[string]int `json:"s_init"`         // initial values of S
	STypes  map[string]int `json:"s_types"`        // initial types of S
}

// Out is an operation's observable result.
type Out struct {
	Err string `json:"err,omitempty"` // "" | undef | dot | unaddr | panic:<msg>
	Val int    `json:"val,omitempty"`
	Str string `json:"str,omitempty"`
}

var pVals = map[string]int{"p0": 1, "s": 2}
var pTypes = map[string]int{"tp": 1, "ts": 2}

var typePool = []reflect.Type{
	nil, // 0 unused
	reflect.TypeOf(int8(0)), reflect.TypeOf(int16(0)), reflect.TypeOf(int32(0)), reflect.TypeOf(uint8(0)),
	reflect.TypeOf(uint16(0)), reflect.TypeOf(uint32(0)), reflect.TypeOf(float32(0)), reflect.TypeOf([]int{}),
	reflect.TypeOf([]string{}), reflect.TypeOf(map[string]int{}), reflect.TypeOf(map[int]string{}), reflect.TypeOf([2]int{}),
	reflect.TypeOf([3]int{}), reflect.TypeOf(struct{ A int }{}), reflect.TypeOf(struct{ B int }{}), reflect.TypeOf(complex64(0)),
	reflect.TypeOf(complex128(0)), reflect.TypeOf([]float64{}), reflect.TypeOf([]bool{}), reflect.TypeOf([4]int{}),
}

func typeID(t reflect.Type) int {
	for i, x := range typePool {
		if i > 0 && x == t {
			return i
		}
	}
	return -1
}

type Prop struct{}

func init() { harness.Register(Prop{}) }

func (Prop) ID() string { return "C13" }

var allKinds = []string{"Define", "DefineDot", "Set", "Get", "Delete", "DeleteGlobal", "DefineType", "Type",
	"ValueSymbols", "TypeSymbols", "Copy", "DeepCopy", "String", "Addr", "NewModule", "EnvFromPath", "DefineGlobal", "EnvFromPath2", "CopyMut", "DeepCopyMut", "DeleteK", "SetLookup", "ClearLookup", "NewEnv"}

func (Prop) Gen(seed int64, tier string) *harness.Case {
	r := harness.Rand(seed)
	w := Work{Rooted: r.Intn(4) == 0, Child: r.Intn(2) == 0, SInit: map[string]int{}, STypes: map[string]int{}}
	w.KMod = w.Child && r.Intn(2) == 0
	w.UY = r.Intn(2) == 0
	nClients := 2 + r.Intn(2)
	if w.KMod && r.Intn(3) == 0 {
		nClients = 4 // lock-order cycles between a scope and its module need two readers and two queued writers
	}
	maxOps := 2 + r.Intn(4)
	readMostly := r.Intn(8) == 0
	if tier == "thorough" && r.Intn(2) == 0 {
		// deeper bounds in the thorough tier: up to 4 clients x 8 operations (histories stay <= 33 operations)
		nClients = 2 + r.Intn(3)
		maxOps = 3 + r.Intn(6)
	}
	valNames := []string{"a", "b"}
	if r.Intn(2) == 0 {
		valNames = append(valNames, "c")
	}
	typeNames := []string{"ta", "tb"}
	if r.Intn(2) == 0 {
		valNames = valNames[:1+r.Intn(len(valNames))] // small pools collide more
	}
	if r.Intn(3) == 0 {
		w.SInit["a"] = 10
	}
	if r.Intn(3) == 0 {
		w.SInit["s"] = 11
	}
	if r.Intn(4) == 0 {
		w.STypes["ta"] = 3
	}
	// swarm: enable a random subset of kinds, always at least one writer and one reader
	enabled := map[string]bool{}
	for _, k := range allKinds {
		if r.Intn(100) < 55 {
			enabled[k] = true
		}
	}
	writers := []string{"Define", "Set", "Delete", "DeleteGlobal", "NewModule", "DefineType"}
	readers := []string{"Get", "ValueSymbols", "Copy", "String", "Addr", "DeepCopy", "TypeSymbols", "Type", "CopyMut", "DeepCopyMut"}
	enabled[writers[r.Intn(len(writers))]] = true
	enabled[writers[r.Intn(len(writers))]] = true
	enabled[readers[r.Intn(len(readers))]] = true
	if !w.Rooted {
		delete(enabled, "DefineGlobal")
	}
	var kinds []string
	for _, k := range allKinds {
		if enabled[k] {
			kinds = append(kinds, k)
		}
	}
	total := 0
	for c := 0; c < nClients; c++ {
		n := 1 + r.Intn(maxOps)
		var ops []Op
		for i := 0; i < n; i++ {
			k := kinds[r.Intn(len(kinds))]
			op := Op{Kind: k, Val: 1000*(c+1) + i}
			if w.Child && c == 0 && r.Intn(2) == 0 {
				op.Via = "K"
			}
			switch k {
			case "Define", "Delete":
				names := append([]string{"s", "m"}, valNames...)
				op.Name = names[r.Intn(len(names))]
				op.Via = ""
			case "Get", "Addr":
				names := append([]string{"s", "p0", "m", "zz"}, valNames...)
				if enabled["SetLookup"] {
					names = append(names, lookupName, lookupName)
				}
				op.Name = names[r.Intn(len(names))]
			case "SetLookup", "ClearLookup":
				op.Via = ""
			case "Set", "DefineGlobal":
				op.Name = valNames[r.Intn(len(valNames))]
			case "DeleteGlobal":
				names := append([]string{"m"}, valNames...)
				op.Name = names[r.Intn(len(names))]
			case "DefineType":
				names := append([]string{"ts"}, typeNames...)
				op.Name = names[r.Intn(len(names))]
				op.Val = 1 + (c*7+i)%(len(typePool)-1)
				op.Via = ""
			case "Type":
				names := append([]string{"ts", "tp", "tz"}, typeNames...)
				op.Name = names[r.Intn(len(names))]
			case "NewModule", "EnvFromPath":
				op.Name = "m"
				if k == "NewModule" {
					op.Via = ""
				}
			case "EnvFromPath2":
				op.Name = "k"
			default:
				op.Via = ""
			}
			ops = append(ops, op)
		}
		total += n
		w.Clients = append(w.Clients, ops)
	}
	if r.Intn(12) == 0 {
		// children of one scope taken by several clients at once, more than a handful each (whatever NewEnv keeps per
		// parent - a free list, a chunk - is then refilled while another client is inside NewEnv)
		w.Clients, total = nil, 0
		for c := 0; c < nClients; c++ {
			var ops []Op
			n := 4 + r.Intn(8)
			for i := 0; i < n; i++ {
				ops = append(ops, Op{Kind: "NewEnv", Val: 1000*(c+1) + i})
			}
			if r.Intn(2) == 0 {
				ops = append(ops, Op{Kind: "Define", Name: valNames[0], Val: 1000*(c+1) + n})
			}
			total += len(ops)
			w.Clients = append(w.Clients, ops)
		}
		readMostly = false
	} else if readMostly {
		// long stretches of lookups around one writer that defines and reads back: what a read-mostly
		// fast path (snapshots, caches published after n lookups) has to survive
		w.Clients, total = nil, 0
		name := valNames[0]
		var wr []Op
		for i := 0; i < 2+r.Intn(3); i++ {
			wr = append(wr, Op{Kind: "Define", Name: name, Val: 1000 + i}, Op{Kind: "Get", Name: name})
		}
		w.Clients = append(w.Clients, wr)
		for c := 1; c < nClients; c++ {
			var rd []Op
			for i := 0; i < 8+r.Intn(8); i++ {
				rd = append(rd, Op{Kind: "Get", Name: []string{name, name, "p0", "zz"}[r.Intn(4)], Val: 1000*(c+1) + i})
			}
			w.Clients = append(w.Clients, rd)
		}
		for _, ops := range w.Clients {
			total += len(ops)
		}
		w.UY = true
	}
	if !readMostly && r.Intn(12) == 0 {
		// every way of holding two scope locks at once, against each other: a listing of S (which may look into the
		// module bound in it), an address taken through the module (which walks up into S), and a writer queued on
		// each of the two scopes
		w.Child, w.KMod = true, true
		w.Clients, total = nil, 0
		name := valNames[0]
		w.SInit[name] = 10
		rep := 1 + r.Intn(2)
		var c0, c1, c2, c3 []Op
		for i := 0; i < rep; i++ {
			c0 = append(c0, Op{Kind: []string{"String", "Copy", "DeepCopy", "ValueSymbols"}[r.Intn(4)], Val: 1000 + i})
			c1 = append(c1, Op{Kind: []string{"Addr", "Get", "Set"}[r.Intn(3)], Name: name, Via: "K", Val: 2000 + i})
			c2 = append(c2, Op{Kind: "Define", Name: name, Val: 3000 + i})
			c3 = append(c3, Op{Kind: "DeleteK", Val: 4000 + i})
		}
		w.Clients = [][]Op{c0, c1, c2, c3}
		total = 4 * rep
	} else if !readMostly && r.Intn(12) == 0 {
		// a listing (or copy) of S while another client WRITES inside a module bound in S: whatever S does with the
		// values it holds - print them, copy them - must not walk into the module's tables behind the module's lock
		w.Child, w.KMod = true, true
		w.Clients, total = nil, 0
		rep := 3 + r.Intn(6)
		if tier == "race" {
			rep = 20 + r.Intn(30)
		}
		var c0, c1 []Op
		for i := 0; i < rep; i++ {
			c0 = append(c0, Op{Kind: []string{"String", "String", "Copy", "DeepCopy", "ValueSymbols"}[r.Intn(5)], Val: 1000 + i})
			c1 = append(c1, Op{Kind: []string{"DefineK", "DefineK", "DeleteK"}[r.Intn(3)], Val: 2000 + i})
		}
		w.Clients = [][]Op{c0, c1}
		if nClients > 2 && tier != "race" {
			var c2 []Op
			for i := 0; i < rep; i++ {
				c2 = append(c2, Op{Kind: []string{"Get", "Set", "Define"}[r.Intn(3)], Name: valNames[0], Val: 3000 + i})
			}
			w.Clients = append(w.Clients, c2)
		}
		for _, ops := range w.Clients {
			total += len(ops)
		}
	} else if !readMostly && r.Intn(10) == 0 {
		// a scope that was large and is being emptied while another client keeps setting and reading one of the
		// survivors: what table maintenance triggered by deletions (shrinking, rebuilding) has to survive
		w.Clients, total = nil, 0
		w.SInit = map[string]int{}
		size := 16 + r.Intn(6)
		// thresholds of such maintenance are powers of two more often than not: some scopes see 64+ and 128+ deletions
		switch r.Intn(10) {
		case 0, 1, 2:
			size = 66 + r.Intn(30)
		case 3:
			size = 130 + r.Intn(30)
		}
		for i := 0; i < size; i++ {
			w.SInit[fmt.Sprintf("i%03d", i)] = 100 + i
		}
		keep := fmt.Sprintf("i%03d", size-1)
		var del []Op
		for i := 0; i < size-2; i++ {
			del = append(del, Op{Kind: "Delete", Name: fmt.Sprintf("i%03d", i)})
		}
		var st []Op
		for i := 0; i < 3+r.Intn(3); i++ {
			st = append(st, Op{Kind: "Set", Name: keep, Val: 2000 + i}, Op{Kind: "Get", Name: keep})
		}
		w.Clients = append(w.Clients, del, st)
		total = len(del) + len(st)
		w.UY = r.Intn(2) == 0
	}
	wb, _ := json.Marshal(w)
	density := []int{5, 15, 30, 50, 70}[r.Intn(5)]
	c := &harness.Case{Prop: "C13", Seed: seed, Tier: tier, Workload: wb,
		Knobs:   map[string]int{"clients": nClients, "density": density, "ops": total},
		Choices: harness.GenChoices(r, total*24+40, density)}
	return c
}

// ---------------------------------------------------------------------------
// sequential model

type state struct {
	vals  map[string]int
	types map[string]int
	// lookup: which external lookup S has installed (0 = none). Lookup k resolves the one name lookupName to the
	// value lookupBase+k and nothing else; it is consulted after S's own table and before P.
	lookup int
}

const (
	lookupName = "xl"
	lookupBase = 500000
)

// stubLookup is the external lookup the SetLookup operation installs.
type stubLookup struct{ v reflect.Value }

func (l *stubLookup) Get(symbol string) (reflect.Value, error) {
	// the host's lookup takes its time: other tasks run while this one is inside it
	simrt.Yield("host")
	if symbol == lookupName {
		return l.v, nil
	}
	return env.NilValue, fmt.Errorf("lookup: no value %s", symbol)
}

func (l *stubLookup) Type(symbol string) (reflect.Type, error) {
	simrt.Yield("host")
	return env.NilType, fmt.Errorf("lookup: no type %s", symbol)
}

// encodeState is the model's state: what encode shows (the tables, which is also what a copy or a listing returns)
// plus the installed lookup.
func encodeState(st state) string { return encode(st) + "|" + strconv.Itoa(st.lookup) }

func encode(st state) string {
	var ks []string
	for k, v := range st.vals {
		ks = append(ks, k+"="+strconv.Itoa(v))
	}
	sort.Strings(ks)
	var ts []string
	for k, v := range st.types {
		ts = append(ts, k+"="+strconv.Itoa(v))
	}
	sort.Strings(ts)
	return strings.Join(ks, ",") + "|" + strings.Join(ts, ",")
}

func decode(s string) state {
	st := state{vals: map[string]int{}, types: map[string]int{}}
	parts := strings.SplitN(s, "|", 3)
	if len(parts) == 3 {
		st.lookup, _ = strconv.Atoi(parts[2])
		parts = parts[:2]
	}
	for i, p := range parts {
		if p == "" {
			continue
		}
		for _, kv := range strings.Split(p, ",") {
			x := strings.SplitN(kv, "=", 2)
			n, _ := strconv.Atoi(x[1])
			if i == 0 {
				st.vals[x[0]] = n
			} else {
				st.types[x[0]] = n
			}
		}
	}
	return st
}

func symbols(m map[string]int) string {
	var ks []string
	for k := range m {
		ks = append(ks, k)
	}
	sort.Strings(ks)
	return strings.Join(ks, ",")
}

// apply is the sequential specification: the new state and the expected
// output of op on st.
func apply(st state, op Op, rooted bool) (state, Out) {
	pv, pt := pVals, pTypes
	if rooted {
		pv, pt = nil, nil
	}
	switch op.Kind {
	case "Define", "DefineGlobal":
		st.vals[op.Name] = op.Val
		return st, Out{}
	case "DefineDot":
		return st, Out{Err: "dot"}
	case "NewModule":
		st.vals[op.Name] = -op.Val
		return st, Out{}
	case "Set":
		if _, ok := st.vals[op.Name]; ok {
			st.vals[op.Name] = op.Val
			return st, Out{}
		}
		return st, Out{Err: "undef"}
	case "NewEnv":
		// a child scope: it is new (nothing in it), and taking it changes nothing in S
		return st, Out{}
	case "SetLookup":
		st.lookup = op.Val
		return st, Out{}
	case "ClearLookup":
		st.lookup = 0
		return st, Out{}
	case "Get":
		if v, ok := st.vals[op.Name]; ok {
			return st, Out{Val: v}
		}
		if op.Name == lookupName && st.lookup != 0 {
			return st, Out{Val: lookupBase + st.lookup}
		}
		if v, ok := pv[op.Name]; ok {
			return st, Out{Val: v}
		}
		return st, Out{Err: "undef"}
	case "Addr":
		if v, ok := st.vals[op.Name]; ok {
			if v < 0 {
				return st, Out{Err: "unaddr"}
			}
			return st, Out{Val: v}
		}
		if op.Name == lookupName && st.lookup != 0 {
			return st, Out{Val: lookupBase + st.lookup}
		}
		if v, ok := pv[op.Name]; ok {
			return st, Out{Val: v}
		}
		return st, Out{Err: "undef"}
	case "Delete", "DeleteGlobal":
		delete(st.vals, op.Name)
		return st, Out{}
	case "DefineType":
		st.types[op.Name] = op.Val
		return st, Out{}
	case "Type":
		if v, ok := st.types[op.Name]; ok {
			return st, Out{Val: v}
		}
		if v, ok := pt[op.Name]; ok {
			return st, Out{Val: v}
		}
		return st, Out{Err: "undef"}
	case "ValueSymbols":
		return st, Out{Str: symbols(st.vals)}
	case "TypeSymbols":
		return st, Out{Str: symbols(st.types)}
	case "Copy", "DeepCopy", "String", "ReadAll":
		return st, Out{Str: encode(st)}
	case "CopyMut", "DeepCopyMut":
		// a copy that its owner writes to at once: a snapshot plus that one binding, and S never sees it
		old, had := st.vals[copyMutName]
		st.vals[copyMutName] = op.Val
		enc := encode(st)
		if had {
			st.vals[copyMutName] = old
		} else {
			delete(st.vals, copyMutName)
		}
		return st, Out{Str: enc}
	case "EnvFromPath":
		if v, ok := st.vals[op.Name]; ok && v < 0 {
			return st, Out{Val: v}
		}
		return st, Out{Err: "undef"}
	case "EnvFromPath2":
		// ["k", "m"]: K (when it is a module) never holds anything itself
		return st, Out{Err: "undef"}
	case "DeleteK", "DefineK":
		// a write on K's own table (which holds nothing but the name these two use): takes K's write lock, changes nothing in S
		return st, Out{}
	}
	return st, Out{Err: "unknown-op"}
}

type modelInput struct {
	Op     Op
	Rooted bool
}

var model = porcupine.Model{
	Init: func() interface{} { return "" }, // replaced per case
	Step: func(s, in, out interface{}) (bool, interface{}) {
		st := decode(s.(string))
		mi := in.(modelInput)
		ns, want := apply(st, mi.Op, mi.Rooted)
		return want == out.(Out), encodeState(ns)
	},
	DescribeOperation: func(in, out interface{}) string {
		return fmt.Sprintf("%+v -> %+v", in.(modelInput).Op, out.(Out))
	},
}

// ---------------------------------------------------------------------------
// running against the real env

type rec struct {
	client   int
	op       Op
	call     int64
	ret      int64
	out      Out
	raw      interface{} // unresolved value (may be *env.Env)
	rawSnap  map[string]interface{}
	rawTypes map[string]reflect.Type
	done     bool
}

func newVal(id int) reflect.Value {
	v := reflect.New(reflect.TypeOf(int(0))).Elem()
	v.SetInt(int64(id))
	return v
}

type runner struct {
	w      *Work
	S, P   *env.Env
	K      *env.Env
	mu     sync.Mutex // guards stamp and modIDs (held only for the assignment, never across a yield)
	stamp  int64
	recs   [][]*rec
	modIDs map[*env.Env]int
	// children: the scopes NewEnv handed out, each marked by its owner with a value of its own
	children []childRec
}

type childRec struct {
	e   *env.Env
	own int
}

// childrenIntact: every scope NewEnv handed out belongs to one caller only - all distinct, each still holding exactly
// the one binding its owner made.
func (r *runner) childrenIntact() string {
	seen := map[*env.Env]int{}
	for _, c := range r.children {
		if other, dup := seen[c.e]; dup {
			return fmt.Sprintf("NewEnv handed the same scope to two callers (marked %d and %d)", other, c.own)
		}
		seen[c.e] = c.own
		syms := c.e.GetValueSymbols()
		v, err := c.e.Get("own")
		if len(syms) != 1 || err != nil || v != c.own {
			return fmt.Sprintf("a scope NewEnv handed out, in which its owner bound only own=%d, now lists %v with own=%v (%v)", c.own, syms, v, err)
		}
	}
	return ""
}

func (r *runner) tick() int64 { r.mu.Lock(); defer r.mu.Unlock(); r.stamp++; return r.stamp }

func (r *runner) resolve(v interface{}) (int, bool) {
	switch x := v.(type) {
	case int:
		return x, true
	case *env.Env:
		id, ok := r.modIDs[x]
		return id, ok
	}
	return 0, false
}

func snapshotOf(e *env.Env) (map[string]interface{}, map[string]reflect.Type) {
	vals := map[string]interface{}{}
	for _, n := range e.GetValueSymbols() {
		// the copy is private: read its own table only
		v, err := e.Get(n)
		if err == nil {
			vals[n] = v
		}
	}
	types := map[string]reflect.Type{}
	for _, n := range e.GetTypeSymbols() {
		t, err := e.Type(n)
		if err == nil {
			types[n] = t
		}
	}
	return vals, types
}

func errClass(err error) string {
	if err == nil {
		return ""
	}
	if err == env.ErrSymbolContainsDot {
		return "dot"
	}
	if strings.Contains(err.Error(), "unaddressable") {
		return "unaddr"
	}
	return "undef"
}

func (r *runner) exec(rc *rec) {
	op := rc.op
	e := r.S
	if op.Via == "K" && r.K != nil {
		e = r.K
	}
	defer func() {
		if p := recover(); p != nil {
			rc.out = Out{Err: "panic:" + fmt.Sprint(p)}
		}
	}()
	switch op.Kind {
	case "Define":
		rc.out.Err = errClass(e.DefineValue(op.Name, newVal(op.Val)))
	case "DefineGlobal":
		rc.out.Err = errClass(e.DefineGlobalValue(op.Name, newVal(op.Val)))
	case "NewEnv":
		ch := e.NewEnv()
		syms := ch.GetValueSymbols()
		sort.Strings(syms)
		rc.out.Str = strings.Join(syms, ",") // a fresh scope lists nothing
		ch.DefineValue("own", newVal(op.Val))
		r.mu.Lock()
		r.children = append(r.children, childRec{ch, op.Val})
		r.mu.Unlock()
	case "SetLookup":
		e.SetExternalLookup(&stubLookup{newVal(lookupBase + op.Val)})
	case "ClearLookup":
		e.SetExternalLookup(nil)
	case "DefineDot":
		rc.out.Err = errClass(e.DefineValue("a.b", newVal(op.Val)))
	case "NewModule":
		m, err := e.NewModule(op.Name)
		rc.out.Err = errClass(err)
		r.mu.Lock()
		r.modIDs[m] = -op.Val
		r.mu.Unlock()
	case "Set":
		rc.out.Err = errClass(e.SetValue(op.Name, newVal(op.Val)))
	case "Get":
		v, err := e.Get(op.Name)
		rc.out.Err = errClass(err)
		if err == nil {
			rc.raw = v
		}
	case "Addr":
		v, err := e.Addr(op.Name)
		rc.out.Err = errClass(err)
		if err == nil {
			rc.raw = v.Elem().Interface()
		}
	case "Delete":
		e.Delete(op.Name)
	case "DeleteGlobal":
		e.DeleteGlobal(op.Name)
	case "DefineType":
		rc.out.Err = errClass(e.DefineReflectType(op.Name, typePool[op.Val]))
	case "Type":
		t, err := e.Type(op.Name)
		rc.out.Err = errClass(err)
		if err == nil {
			rc.out.Val = typeID(t)
		}
	case "ValueSymbols":
		s := e.GetValueSymbols()
		sort.Strings(s)
		rc.out.Str = strings.Join(s, ",")
	case "TypeSymbols":
		s := e.GetTypeSymbols()
		sort.Strings(s)
		rc.out.Str = strings.Join(s, ",")
	case "Copy":
		cp := e.Copy()
		rc.rawSnap, rc.rawTypes = snapshotOf(cp)
	case "DeepCopy":
		cp := e.DeepCopy()
		rc.rawSnap, rc.rawTypes = snapshotOf(cp)
	case "CopyMut", "DeepCopyMut":
		cp := e.Copy()
		if op.Kind == "DeepCopyMut" {
			cp = e.DeepCopy()
		}
		rc.out.Err = errClass(cp.DefineValue(copyMutName, newVal(op.Val)))
		rc.rawSnap, rc.rawTypes = snapshotOf(cp)
	case "String":
		rc.out.Str = e.String()
	case "EnvFromPath":
		m, err := e.GetEnvFromPath([]string{op.Name})
		rc.out.Err = errClass(err)
		if err == nil {
			rc.raw = m
		}
	case "DeleteK":
		if r.K != nil {
			r.K.Delete("zq")
		}
	case "DefineK":
		if r.K != nil {
			r.K.Define("zq", int64(op.Val))
		}
	case "EnvFromPath2":
		m, err := e.GetEnvFromPath([]string{op.Name, "m"})
		rc.out.Err = errClass(err)
		if err == nil {
			rc.raw = m
		}
	}
}

// finalize resolves raw values (module pointers) once all tasks are done.
func (r *runner) finalize(rc *rec) string {
	if strings.HasPrefix(rc.out.Err, "panic:") {
		return ""
	}
	if rc.raw != nil {
		id, ok := r.resolve(rc.raw)
		if !ok {
			return fmt.Sprintf("%+v returned a value nobody stored: %#v", rc.op, rc.raw)
		}
		rc.out.Val = id
	}
	if rc.rawSnap != nil || rc.op.Kind == "Copy" || rc.op.Kind == "DeepCopy" || rc.op.Kind == "ReadAll" || rc.op.Kind == "CopyMut" || rc.op.Kind == "DeepCopyMut" {
		st := state{vals: map[string]int{}, types: map[string]int{}}
		for k, v := range rc.rawSnap {
			id, ok := r.resolve(v)
			if !ok {
				return fmt.Sprintf("%+v snapshot holds a value nobody stored: %s=%#v", rc.op, k, v)
			}
			st.vals[k] = id
		}
		for k, t := range rc.rawTypes {
			st.types[k] = typeID(t)
		}
		rc.out.Str = encode(st)
	}
	if rc.op.Kind == "String" {
		// "Has parent\n" / "No parent\n", then "name = value" lines for values and "name = type" for types
		st := state{vals: map[string]int{}, types: map[string]int{}}
		lines := strings.Split(strings.TrimSpace(rc.out.Str), "\n")
		recognised := len(lines) > 0
		for _, ln := range lines[1:] {
			kv := strings.SplitN(ln, " = ", 2)
			if len(kv) != 2 || strings.ContainsAny(kv[0], " \t") {
				// not the "name = value" shape: the text format is not specified, so do not judge this output
				recognised = false
				break
			}
			if n, err := strconv.Atoi(kv[1]); err == nil {
				st.vals[kv[0]] = n
				continue
			}
			found := false
			for i, t := range typePool {
				if i > 0 && t.String() == kv[1] {
					st.types[kv[0]] = i
					found = true
				}
			}
			if !found {
				// a module value prints as a pointer: the model identifies it by name only
				st.vals[kv[0]] = -1
			}
		}
		rc.out.Str = encode(st)
		if !recognised {
			rc.out.Str = "?unrecognised"
		}
	}
	return ""
}

// stringNormalize maps module ids to -1 in an encoded state (String() cannot
// tell modules apart).
func stringNormalize(enc string) string {
	st := decode(enc)
	for k, v := range st.vals {
		if v < 0 {
			st.vals[k] = -1
		}
	}
	return encode(st)
}

func (p Prop) Run(t *testing.T, c *harness.Case, verbose bool) *harness.Result {
	var w Work
	res := &harness.Result{Counters: map[string]int{}}
	if err := json.Unmarshal(c.Workload, &w); err != nil {
		res.Inconclusive = "bad workload: " + err.Error()
		return res
	}
	r := &runner{w: &w, modIDs: map[*env.Env]int{}}
	total := 0
	for _, ops := range w.Clients {
		total += len(ops)
	}
	var sim *simrt.Sim
	var final *rec
	leaked := harness.Bubble(t, func() {
		sim = simrt.New(c.Choices, total*60+300) // generous: a deadlock is detected as such, the budget only ends a livelock
		sim.UnlockYields = w.UY
		r.build()
		r.recs = make([][]*rec, len(w.Clients))
		for ci, ops := range w.Clients {
			ci, ops := ci, ops
			for _, op := range ops {
				r.recs[ci] = append(r.recs[ci], &rec{client: ci, op: op})
			}
			sim.Spawn(fmt.Sprintf("c%d", ci), func() {
				for _, rc := range r.recs[ci] {
					rc.call = r.tick()
					r.exec(rc)
					rc.ret = r.tick()
					rc.done = true
				}
			})
		}
		res.Outcome = sim.Run()
		if res.Outcome == "done" {
			// the final state is part of the history
			final = &rec{client: len(w.Clients), op: Op{Kind: "ReadAll"}}
			final.call = r.tick()
			final.rawSnap, final.rawTypes = snapshotOf(r.S.Copy())
			final.ret = r.tick()
			final.done = true
		}
		sim.Teardown(nil)
	})
	res.Leaked = leaked
	res.Steps, res.Switches, res.Contended = sim.Step, sim.Switches, sim.Contended
	res.Tasks = len(sim.Tasks())
	res.FakeNs = 0
	res.LogHash = fmt.Sprintf("%016x", sim.LogHash())
	for k, v := range sim.Counters {
		res.Counters[k] = v
	}
	res.Shape = harness.HashStrings(string(c.Workload), res.LogHash)
	res.Nontrivial = sim.Switches > 0
	if verbose {
		for _, e := range sim.Log {
			res.Log = append(res.Log, fmt.Sprintf("%d %s %s", e.Step, e.Task, e.Kind))
		}
	}

	// engine-level violations first (most specific)
	for _, v := range sim.Viol {
		res.Violation = v.Class
		res.Detail = fmt.Sprintf("%s (task %s, step %d)", v.Detail, v.Task, v.Step)
		res.Signature = v.Class + ":" + v.Detail
		return res
	}
	if res.Outcome != "done" {
		res.Violation = "liveness"
		res.Detail = "outcome " + res.Outcome + ": clients did not finish (deadlock or lost wake-up inside the environment)"
		res.Signature = "liveness:" + res.Outcome
		return res
	}
	r.judge(&w, final, res, verbose)
	return res
}

// judge is the history oracle, shared by the simulation and the real-goroutine leg: phantom values, panics,
// linearizability against the two-dictionary model (final state included).
func (r *runner) judge(wp *Work, final *rec, res *harness.Result, verbose bool) *harness.Result {
	w := *wp
	var ops []porcupine.Operation
	var hist []string
	all := []*rec{}
	for _, rs := range r.recs {
		all = append(all, rs...)
	}
	all = append(all, final)
	for _, rc := range all {
		if msg := r.finalize(rc); msg != "" {
			res.Violation = "phantom-value"
			res.Detail = msg
			res.Signature = "phantom-value"
			return res
		}
		if strings.HasPrefix(rc.out.Err, "panic:") {
			res.Violation = "op-panic"
			res.Detail = fmt.Sprintf("%+v panicked: %s", rc.op, rc.out.Err)
			res.Signature = "op-panic:" + rc.op.Kind
			return res
		}
	}
	if msg := r.childrenIntact(); msg != "" {
		res.Violation = "shared-child-scope"
		res.Detail = msg
		res.Signature = "shared-child-scope"
		return res
	}
	for _, rc := range all {
		in := modelInput{Op: rc.op, Rooted: w.Rooted}
		out := rc.out
		if rc.op.Kind == "String" {
			in.Op.Kind = "StringN"
		}
		ops = append(ops, porcupine.Operation{ClientId: rc.client, Input: in, Call: rc.call, Output: out, Return: rc.ret})
		hist = append(hist, fmt.Sprintf("c%d [%d,%d] %+v -> %+v", rc.client, rc.call, rc.ret, rc.op, rc.out))
	}
	m := model
	init := encodeState(initState(&w))
	m.Init = func() interface{} { return init }
	m.Step = func(s, in, out interface{}) (bool, interface{}) {
		st := decode(s.(string))
		mi := in.(modelInput)
		if mi.Op.Kind == "StringN" {
			// The text String() prints is not specified. While it keeps the shape "name = value" per line
			// it is read as a listing of the scope (names, integer values) and must be a state the scope
			// was in; any other shape is not judged (the operation still takes part in the schedule).
			if out.(Out).Str == "?unrecognised" {
				return true, s
			}
			return stringNormalize(s.(string)) == out.(Out).Str, s
		}
		ns, want := apply(st, mi.Op, mi.Rooted)
		if mi.Op.Kind == "Addr" && out.(Out).Err != "" && out.(Out).Err != "undef" {
			// when Addr refuses (unaddressable values) is not specified by the property
			return true, encodeState(ns)
		}
		if mi.Op.Kind == "Addr" && want.Err == "unaddr" {
			return true, encodeState(ns)
		}
		return want == out.(Out), encodeState(ns)
	}
	cr := porcupine.CheckOperationsTimeout(m, ops, 30*time.Second)
	res.Counters["history_ops"] = len(ops)
	switch cr {
	case porcupine.Illegal:
		res.Violation = "not-linearizable"
		res.Detail = "no one-at-a-time ordering explains this history:\n  " + strings.Join(hist, "\n  ")
		res.Signature = "not-linearizable"
	case porcupine.Unknown:
		res.Inconclusive = "porcupine timed out"
	}
	if verbose {
		res.Log = append(res.Log, hist...)
	}
	return res
}

// build creates the scopes of a workload (plain locking: called outside tasks).
func (r *runner) build() {
	w := r.w
	if w.Rooted {
		r.S = env.NewEnv()
	} else {
		r.P = env.NewEnv()
		for _, k := range sortedKeys(pVals) {
			r.P.DefineValue(k, newVal(pVals[k]))
		}
		for _, k := range sortedKeys(pTypes) {
			r.P.DefineReflectType(k, typePool[pTypes[k]])
		}
		r.S = r.P.NewEnv()
	}
	for _, k := range sortedKeys(w.SInit) {
		r.S.DefineValue(k, newVal(w.SInit[k]))
	}
	for _, k := range sortedKeys(w.STypes) {
		r.S.DefineReflectType(k, typePool[w.STypes[k]])
	}
	if w.Child && w.KMod {
		r.K, _ = r.S.NewModule(kModName)
		r.modIDs[r.K] = kModID
	} else if w.Child {
		r.K = r.S.NewEnv()
	}
}

const kModName, kModID = "k", -7

// copyMutName is only ever bound in copies, never in S
const copyMutName = "zc"

// initState is the model's view of S before the clients start.
func initState(w *Work) state {
	vals := map[string]int{}
	for k, v := range w.SInit {
		vals[k] = v
	}
	if w.Child && w.KMod {
		vals[kModName] = kModID
	}
	return state{vals: vals, types: w.STypes}
}

// RunReal runs the workload of c on real goroutines with no scheduler: the
// auxiliary race-detector leg. It returns a panic message if an operation
// panicked.
func RunReal(c *harness.Case) string {
	var w Work
	if json.Unmarshal(c.Workload, &w) != nil {
		return ""
	}
	r := &runner{w: &w, modIDs: map[*env.Env]int{}}
	r.build()
	r.recs = make([][]*rec, len(w.Clients))
	for ci, ops := range w.Clients {
		for _, op := range ops {
			r.recs[ci] = append(r.recs[ci], &rec{client: ci, op: op})
		}
	}
	var wg sync.WaitGroup
	start := make(chan struct{})
	for ci := range w.Clients {
		wg.Add(1)
		go func(ci int) {
			defer wg.Done()
			<-start
			for _, rc := range r.recs[ci] {
				// the stamps come from one counter: if A's return stamp is below B's call stamp, A had
				// finished before B began; otherwise the two count as concurrent (sound, never stricter
				// than real time)
				rc.call = r.tick()
				r.exec(rc)
				rc.ret = r.tick()
				rc.done = true
			}
		}(ci)
	}
	close(start)
	wg.Wait()
	final := &rec{client: len(w.Clients), op: Op{Kind: "ReadAll"}}
	final.call = r.tick()
	final.rawSnap, final.rawTypes = snapshotOf(r.S.Copy())
	final.ret = r.tick()
	final.done = true
	res := &harness.Result{Counters: map[string]int{}}
	r.judge(&w, final, res, false)
	if res.Violation != "" {
		return res.Violation + ": " + res.Detail
	}
	return ""
}

func sortedKeys(m map[string]int) []string {
	var ks []string
	for k := range m {
		ks = append(ks, k)
	}
	sort.Strings(ks)
	return ks
}

func (Prop) Shrink(c *harness.Case) []*harness.Case {
	var w Work
	if json.Unmarshal(c.Workload, &w) != nil {
		return nil
	}
	var out []*harness.Case
	emit := func(nw Work) {
		d := c.Clone()
		d.Workload, _ = json.Marshal(nw)
		out = append(out, d)
	}
	// drop a client
	if len(w.Clients) > 1 {
		for i := range w.Clients {
			nw := w
			nw.Clients = append(append([][]Op{}, w.Clients[:i]...), w.Clients[i+1:]...)
			if i == 0 {
				nw.Child = false
			}
			emit(nw)
		}
	}
	// drop one op
	for i := range w.Clients {
		for j := range w.Clients[i] {
			nw := w
			nw.Clients = append([][]Op{}, w.Clients...)
			nw.Clients[i] = append(append([]Op{}, w.Clients[i][:j]...), w.Clients[i][j+1:]...)
			emit(nw)
		}
	}
	// simplify
	if w.Child {
		nw := w
		nw.Child = false
		emit(nw)
	}
	if w.KMod {
		nw := w
		nw.KMod = false
		emit(nw)
	}
	if w.UY {
		nw := w
		nw.UY = false
		emit(nw)
	}
	if len(w.SInit) > 0 {
		nw := w
		nw.SInit = map[string]int{}
		emit(nw)
	}
	if len(w.STypes) > 0 {
		nw := w
		nw.STypes = map[string]int{}
		emit(nw)
	}
	return out
}
