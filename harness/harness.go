// Package harness holds what every property shares: the case file format, the
// result record, the bubble runner and the generic minimiser.
package harness

import (
	"encoding/json"
	"fmt"
	"hash/fnv"
	"math/rand"
	"sort"
	"strings"
	"testing"
	"testing/synctest"
)

// EventSpec is a scheduler event as plain data.
type EventSpec struct {
	Kind         string `json:"kind"` // cancel | fault...
	AtStep       int    `json:"at_step,omitempty"`
	AtQuiescence bool   `json:"at_quiescence,omitempty"`
	AtFakeNs     int64  `json:"at_fake_ns,omitempty"`
	Arg          int    `json:"arg,omitempty"`
}

// Case is one exactly repeatable execution: everything the PRNG decided,
// written down before the run.
type Case struct {
	Prop     string          `json:"property"`
	Seed     int64           `json:"seed"`
	Tier     string          `json:"tier,omitempty"`
	Knobs    map[string]int  `json:"knobs,omitempty"`
	Workload json.RawMessage `json:"workload"`
	Choices  []uint16        `json:"choices"`
	Events   []EventSpec     `json:"events,omitempty"`
	Source   string          `json:"source,omitempty"` // rendered script, informational (re-rendered from workload on replay)
	Expect   *Result         `json:"expected_result,omitempty"`
}

// Clone deep-copies a case through JSON.
func (c *Case) Clone() *Case {
	b, _ := json.Marshal(c)
	var d Case
	json.Unmarshal(b, &d)
	d.Expect = nil
	return &d
}

// Result is what one run produced.
type Result struct {
	Violation    string         `json:"violation,omitempty"` // stable class; empty = property held on this run
	Detail       string         `json:"detail,omitempty"`
	Signature    string         `json:"signature,omitempty"` // what a known-finding entry is matched against
	Outcome      string         `json:"outcome,omitempty"`
	Steps        int            `json:"steps"`
	Switches     int            `json:"switches"`
	Contended    int            `json:"contended"`
	Tasks        int            `json:"tasks"`
	FakeNs       int64          `json:"fake_ns"`
	LogHash      string         `json:"log_hash"`
	Counters     map[string]int `json:"counters,omitempty"` // faults fired, probes hit
	Shape        string         `json:"shape,omitempty"`    // key for distinct-case counting
	Nontrivial   bool           `json:"nontrivial"`
	Inconclusive string         `json:"inconclusive,omitempty"`
	Leaked       bool           `json:"leaked,omitempty"`
	Tainted      bool           `json:"tainted,omitempty"` // process-wide state was corrupted: this worker process must not run further cases
	Log          []string       `json:"log,omitempty"`     // verbose / replay only
}

// Prop is one property's generator, runner and shrinker.
type Prop interface {
	ID() string
	// Gen is a pure function of (seed, tier).
	Gen(seed int64, tier string) *Case
	// Run executes the case; deterministic. It creates its own bubble(s)
	// through Bubble.
	Run(t *testing.T, c *Case, verbose bool) *Result
	// Shrink proposes strictly smaller variants of c.
	Shrink(c *Case) []*Case
}

// Beat is set by the worker: props call it to tell the driver's watchdog what
// the current case is doing (e.g. "cancel-delivered"). It must never draw
// randomness or read a clock.
var Beat = func(msg string) {}

// KnownStripper is implemented by properties that have recorded known
// findings: StripKnown returns the case without the constructs behind them.
type KnownStripper interface {
	StripKnown(c *Case) (*Case, bool)
}

var registry = map[string]Prop{}

func Register(p Prop) { registry[p.ID()] = p }
func Lookup(id string) Prop {
	return registry[id]
}
func IDs() []string {
	var ids []string
	for k := range registry {
		ids = append(ids, k)
	}
	sort.Strings(ids)
	return ids
}

// Bubble runs fn as the root goroutine of a synctest bubble. It reports
// whether goroutines were left durably blocked when fn returned (synctest's
// end-of-bubble deadlock panic, recovered here).
func Bubble(t *testing.T, fn func()) (leaked bool) {
	defer func() {
		if r := recover(); r != nil {
			msg := fmt.Sprint(r)
			if strings.Contains(msg, "deadlock") || strings.Contains(msg, "blocked goroutines") {
				leaked = true
				return
			}
			panic(r)
		}
	}()
	synctest.Test(t, func(*testing.T) { fn() })
	return false
}

// Rand returns the single PRNG of a case.
func Rand(seed int64) *rand.Rand { return rand.New(rand.NewSource(seed)) }

// GenChoices draws a choice list: each entry non-zero with probability
// density/100.
func GenChoices(r *rand.Rand, n int, density int) []uint16 {
	cs := make([]uint16, n)
	for i := range cs {
		if r.Intn(100) < density {
			cs[i] = uint16(1 + r.Intn(3))
		}
	}
	return cs
}

// HashStrings digests a list of strings.
func HashStrings(parts ...string) string {
	h := fnv.New64a()
	for _, p := range parts {
		h.Write([]byte(p))
		h.Write([]byte{0})
	}
	return fmt.Sprintf("%016x", h.Sum64())
}

// ShrinkChoices proposes generic schedule simplifications.
func ShrinkChoices(c *Case) []*Case {
	var out []*Case
	n := len(c.Choices)
	// trim trailing zeros / truncate
	last := -1
	for i, v := range c.Choices {
		if v != 0 {
			last = i
		}
	}
	if last+1 < n {
		d := c.Clone()
		d.Choices = d.Choices[:last+1]
		out = append(out, d)
	}
	if last >= 0 {
		// all zero
		d := c.Clone()
		d.Choices = nil
		out = append(out, d)
		// halves
		d = c.Clone()
		d.Choices = d.Choices[:(last+1)/2]
		out = append(out, d)
		// zero individual switches (latest first)
		cnt := 0
		for i := last; i >= 0 && cnt < 48; i-- {
			if c.Choices[i] != 0 {
				d := c.Clone()
				d.Choices[i] = 0
				out = append(out, d)
				cnt++
			}
		}
		// simplify non-1 choices
		cnt = 0
		for i := 0; i <= last && cnt < 16; i++ {
			if c.Choices[i] > 1 {
				d := c.Clone()
				d.Choices[i] = 1
				out = append(out, d)
				cnt++
			}
		}
	}
	return out
}

// Minimise shrinks c while run(c) keeps failing with the same violation class.
// budget bounds the number of candidate runs.
func Minimise(p Prop, t *testing.T, c *Case, class string, budget int) (*Case, *Result, int) {
	best := c
	bestRes := p.Run(t, c, false)
	runs := 1
	if bestRes.Violation != class || bestRes.Tainted {
		// a run that corrupted process-wide state poisons every later candidate
		// in this process: report the case unminimised
		return c, bestRes, runs
	}
	for progress := true; progress && runs < budget; {
		progress = false
		cands := append(p.Shrink(best), ShrinkChoices(best)...)
		for ci, cand := range cands {
			if runs >= budget {
				break
			}
			Beat(fmt.Sprintf("minimise candidate %d", runs))
			r := p.Run(t, cand, false)
			runs++
			if r.Violation == class {
				best, bestRes = cand, r
				progress = true
				break
			}
			// A structurally smaller workload shifts every later scheduling decision, so the old choice list
			// rarely still hits the window. Give the first few structural candidates a handful of fresh
			// schedules (derived from the seed and the attempt number only: still deterministic).
			if ci < 12 && len(best.Choices) > 0 && string(cand.Workload) != string(best.Workload) {
				hit := false
				for k := 0; k < 6 && runs < budget; k++ {
					alt := cand.Clone()
					n := len(cand.Choices)
					if n < 64 {
						n = 64
					}
					alt.Choices = GenChoices(Rand(c.Seed*7919+int64(ci)*131+int64(k)), n, []int{20, 50, 80}[k%3])
					r := p.Run(t, alt, false)
					runs++
					if r.Violation == class {
						best, bestRes = alt, r
						progress, hit = true, true
						break
					}
				}
				if hit {
					break
				}
			}
		}
	}
	return best, bestRes, runs
}
