package simrt

// getg returns the address of the running goroutine's descriptor: a stable,
// cheap identity for the lifetime of the goroutine (runtime.Stack costs tens of
// microseconds on the interpreter's deep stacks).
func getg() uintptr

func gkey() uint64 { return uint64(getg()) }
