// Package simrt is the deterministic scheduler under which the real anko
// interpreter runs during verification.
//
// Tasks are real goroutines, parked and released one at a time. A task parks at
// a yield point (an Env lock acquisition, a context poll, a host probe, its own
// birth); the scheduler - the root goroutine of a testing/synctest bubble -
// waits for quiescence (synctest.Wait), then picks one eligible parked task
// from the set sorted by stable structural task id, using the next entry of the
// case's choice list. No PRNG, no wall clock and no address is consulted at run
// time, so an execution is a pure function of (code, case).
//
// The package must not import anything from mattn/anko: rewritten copies of
// env/*.go and vm/*.go import it through `go test -overlay`.
package simrt

import (
	"context"
	"fmt"
	"reflect"
	"runtime"
	"sort"
	"strconv"
	"sync"
	"sync/atomic"
	"testing/synctest"
	"time"
)

// ---------------------------------------------------------------------------
// goroutine identity

func goid() uint64 {
	var buf [40]byte
	n := runtime.Stack(buf[:], false)
	// "goroutine 123 [running]:"
	var id uint64
	for i := len("goroutine "); i < n; i++ {
		c := buf[i]
		if c < '0' || c > '9' {
			break
		}
		id = id*10 + uint64(c-'0')
	}
	return id
}

// ---------------------------------------------------------------------------
// tasks

// TaskState is what the scheduler knows about a task at quiescence.
type TaskState int

const (
	Running TaskState = iota // released and not yet parked again (also: blocked in a channel operation)
	Parked
	Sleeping
	Done
)

// Task is one schedulable goroutine.
type Task struct {
	ID     string
	sim    *Sim
	wake   chan struct{}
	kind   string
	ready  func() bool
	state  TaskState
	nchild int
	wakeAt time.Time

	Steps              int  // times this task was released
	Polls              int  // context polls
	ObservedCancelStep int  // scheduler step at which the task first saw the cancelled context; -1 = never
	ObservedBlocked    bool // observed because it was blocked in a channel operation when cancel fired
	FinishedStep       int  // step counter when the task finished; -1 = still live
	Killed             bool // ended by teardown
	EscapedPanic       any  // a panic that unwound out of the goroutine's function
	IsScriptGo         bool // spawned by a script `go` (through simrt.Go)
	// Daemon: a party the verdict does not wait for (a goroutine left behind by an earlier run, a second call
	// running under another context). It is scheduled like any other task, but the run is over ("done") as soon
	// as every other task has finished. Tasks started by a daemon are daemons.
	Daemon bool
	solo   bool // Solo mode: never parks
	held   []heldLock // sim locks this task holds right now (for the general lockset probe)
}

type heldLock struct {
	m     *RWMutex
	write bool
}

func (t *Task) acquired(m *RWMutex, write bool) { t.held = append(t.held, heldLock{m, write}) }

func (t *Task) released(m *RWMutex, write bool) {
	for i := len(t.held) - 1; i >= 0; i-- {
		if t.held[i].m == m && t.held[i].write == write {
			t.held = append(t.held[:i], t.held[i+1:]...)
			return
		}
	}
}

// LogEntry is one scheduling decision.
type LogEntry struct {
	Step int
	Task string
	Kind string
}

// Violation is an invariant broken inside the engine's own view (lock misuse,
// lockset, escaped panic).
type Violation struct {
	Class  string // stable class, e.g. "lockset", "unlock-unheld", "escaped-panic"
	Detail string
	Step   int
	Task   string
}

// Event is something the scheduler does at a given instant.
type Event struct {
	AtStep       int           // fire just before choosing step AtStep (>=0); ignored when AtQuiescence/AtIdleTime set
	AtQuiescence bool          // fire the first time no task is eligible and none is sleeping
	AtIdleTime   time.Duration // >0: fire at fake time T (reached only while no task is eligible)
	Name         string
	Do           func(s *Sim)
	fired        bool
}

// Sim is one simulated execution.
type Sim struct {
	mu     sync.Mutex
	byGoid map[uint64]*Task
	tasks  []*Task
	kill   bool

	Choices   []uint16
	MaxSteps  int
	MaxFake   time.Duration
	Events    []*Event
	Step      int
	Log       []LogEntry
	Viol      []Violation
	Switches  int // steps where the chosen task differs from the previous one
	Contended int // times a parked task was ineligible because of a lock
	Counters  map[string]int
	start     time.Time
	lastTask  *Task
	KeepLog   bool
	OnStep    func(s *Sim) // invariant hook, called at quiescence before each choice
	Outcome   string       // done | deadlock | budget | fakebudget
	FiredEvts []string
	ctxs      []*Ctx
	// UnlockYields: releasing a lock is a scheduling point too (what a caller does between an unlock and its
	// next synchronisation - publishing a snapshot, say - can then be overtaken by another task)
	UnlockYields bool
}

var cur atomic.Pointer[Sim]

// New creates a simulation and makes it current. Must be called inside a
// synctest bubble.
func New(choices []uint16, maxSteps int) *Sim {
	s := &Sim{
		byGoid:   map[uint64]*Task{},
		Choices:  choices,
		MaxSteps: maxSteps,
		MaxFake:  time.Hour,
		Counters: map[string]int{},
		start:    time.Now(),
		KeepLog:  true,
	}
	cur.Store(s)
	return s
}

// Close detaches the simulation.
func (s *Sim) Close() { cur.CompareAndSwap(s, nil) }

func current() (*Sim, *Task) {
	s := cur.Load()
	if s == nil {
		return nil, nil
	}
	id := gkey()
	s.mu.Lock()
	t := s.byGoid[id]
	s.mu.Unlock()
	if t == nil {
		return s, nil
	}
	return s, t
}

// CurTask returns the calling task, or nil outside a simulation.
func CurTask() *Task {
	_, t := current()
	return t
}

// CurSim returns the current simulation or nil.
func CurSim() *Sim { return cur.Load() }

// Count bumps a named counter (probe reach, fault fired...). Safe from tasks.
func (s *Sim) Count(name string) {
	s.mu.Lock()
	s.Counters[name]++
	s.mu.Unlock()
}

func (s *Sim) violate(class, detail string, t *Task) {
	s.mu.Lock()
	id := ""
	if t != nil {
		id = t.ID
	}
	s.Viol = append(s.Viol, Violation{Class: class, Detail: detail, Step: s.Step, Task: id})
	s.mu.Unlock()
}

// Violate records a violation from harness code.
func (s *Sim) Violate(class, detail string) { s.violate(class, detail, nil) }

func (s *Sim) newTask(id string) *Task {
	t := &Task{ID: id, sim: s, wake: make(chan struct{}, 1), ObservedCancelStep: -1, FinishedStep: -1}
	s.mu.Lock()
	s.tasks = append(s.tasks, t)
	s.mu.Unlock()
	return t
}

func (s *Sim) start_(t *Task, fn func()) {
	go func() {
		gid := gkey()
		s.mu.Lock()
		s.byGoid[gid] = t
		s.mu.Unlock()
		defer func() {
			s.mu.Lock()
			t.state = Done
			t.FinishedStep = s.Step
			delete(s.byGoid, gid)
			s.mu.Unlock()
		}()
		defer func() {
			if r := recover(); r != nil {
				t.EscapedPanic = r
				s.violate("escaped-panic", fmt.Sprintf("panic unwound out of goroutine %s: %v", t.ID, r), t)
			}
		}()
		s.yield(t, "birth", nil)
		fn()
	}()
}

// Spawn starts a harness task with an explicit stable id. Call from the root
// goroutine before Run (or from a task).
func (s *Sim) Spawn(id string, fn func()) *Task {
	t := s.newTask(id)
	s.start_(t, fn)
	return t
}

// Go is what a rewritten `go f(args)` calls. Outside a simulation it is a
// plain go statement.
func Go(fn func()) {
	s, t := current()
	if t == nil || s == nil {
		go fn()
		return
	}
	s.mu.Lock()
	id := t.ID + "." + strconv.Itoa(t.nchild)
	t.nchild++
	s.Counters["spawn"]++
	s.mu.Unlock()
	c := s.newTask(id)
	c.IsScriptGo = true
	c.Daemon = t.Daemon
	s.start_(c, fn)
}

func (s *Sim) yield(t *Task, kind string, ready func() bool) {
	if t.solo {
		s.mu.Lock()
		s.Step++
		ok := ready == nil || ready()
		s.mu.Unlock()
		if !ok {
			s.violate("self-deadlock", "the only task waits for a lock it can never get ("+kind+")", t)
			panic("simrt: self-deadlock in solo mode")
		}
		return
	}
	s.mu.Lock()
	if s.kill {
		t.Killed = true
		s.mu.Unlock()
		runtime.Goexit()
	}
	t.kind, t.ready, t.state = kind, ready, Parked
	s.mu.Unlock()
	<-t.wake
	s.mu.Lock()
	k := s.kill
	if k {
		t.Killed = true
	}
	s.mu.Unlock()
	if k {
		runtime.Goexit()
	}
}

// Yield parks the calling task until the scheduler releases it. No-op outside
// a simulation.
func Yield(kind string) {
	s, t := current()
	if t == nil {
		return
	}
	s.yield(t, kind, nil)
}

// Sleep is the host `sleep` seam: it sleeps on the bubble's fake clock and
// tells the scheduler so that it knows the clock must advance.
func Sleep(d time.Duration) {
	s, t := current()
	if t == nil {
		time.Sleep(d)
		return
	}
	s.yield(t, "sleep", nil)
	s.mu.Lock()
	t.state = Sleeping
	t.wakeAt = time.Now().Add(d)
	s.Counters["sleep"]++
	s.mu.Unlock()
	time.Sleep(d)
	s.mu.Lock()
	t.state = Running
	s.mu.Unlock()
}

// Tasks returns all tasks sorted by id.
func (s *Sim) Tasks() []*Task {
	s.mu.Lock()
	ts := append([]*Task(nil), s.tasks...)
	s.mu.Unlock()
	sort.Slice(ts, func(i, j int) bool { return ts[i].ID < ts[j].ID })
	return ts
}

// Live reports the number of unfinished tasks.
func (s *Sim) Live() int {
	n := 0
	s.mu.Lock()
	for _, t := range s.tasks {
		if t.state != Done {
			n++
		}
	}
	s.mu.Unlock()
	return n
}

// State returns the task's state as seen at quiescence.
func (t *Task) State() TaskState { return t.state }

// FakeElapsed is the fake time consumed so far.
func (s *Sim) FakeElapsed() time.Duration { return time.Since(s.start) }

// Run is the scheduler loop. It returns the outcome: done, deadlock, budget or
// fakebudget. Call from the bubble's root goroutine.
func (s *Sim) Run() string {
	for {
		synctest.Wait()

		// step-indexed events
		for _, ev := range s.Events {
			if !ev.fired && !ev.AtQuiescence && ev.AtIdleTime == 0 && ev.AtStep <= s.Step {
				s.fire(ev)
				synctest.Wait()
			}
		}
		if s.OnStep != nil {
			s.OnStep(s)
		}

		ts := s.Tasks()
		var elig []*Task
		live, sleepers := 0, 0
		judgedElig, judgedSleepers := 0, 0
		var minWake time.Time
		s.mu.Lock()
		for _, t := range ts {
			switch t.state {
			case Done:
				continue
			case Sleeping:
				sleepers++
				if !t.Daemon {
					judgedSleepers++
				}
				if minWake.IsZero() || t.wakeAt.Before(minWake) {
					minWake = t.wakeAt
				}
			case Parked:
				if t.ready == nil || t.ready() {
					elig = append(elig, t)
					if !t.Daemon {
						judgedElig++
					}
				} else {
					s.Contended++
				}
			}
			if !t.Daemon {
				live++
			}
		}
		s.mu.Unlock()
		if live == 0 {
			s.Outcome = "done"
			return s.Outcome
		}
		var c uint16
		if s.Step < len(s.Choices) {
			c = s.Choices[s.Step]
		}
		// daemons (parties the verdict does not wait for) must not hold the clock back: when only they could run
		// while a judged task sleeps, the choice decides between letting one of them run and letting time pass
		if len(elig) > 0 && judgedElig == 0 && judgedSleepers > 0 && c == 0 {
			if s.FakeElapsed() > s.MaxFake {
				s.Outcome = "fakebudget"
				return s.Outcome
			}
			if d := time.Until(minWake); d > 0 {
				time.Sleep(d)
			}
			s.Counters["clock_advanced_past_daemons"]++
			s.Step++ // the decision consumed a choice
			if s.Step >= s.MaxSteps {
				s.Outcome = "budget"
				return s.Outcome
			}
			continue
		}
		if len(elig) == 0 {
			// nothing runnable: clock, quiescence events, or deadlock
			var timed *Event
			for _, ev := range s.Events {
				if !ev.fired && ev.AtIdleTime > 0 && (timed == nil || ev.AtIdleTime < timed.AtIdleTime) {
					timed = ev
				}
			}
			now := time.Now()
			if timed != nil {
				at := s.start.Add(timed.AtIdleTime)
				if sleepers == 0 || !minWake.Before(at) {
					if at.After(now) {
						time.Sleep(at.Sub(now))
					}
					s.fire(timed)
					continue
				}
			}
			if sleepers > 0 {
				if s.FakeElapsed() > s.MaxFake {
					s.Outcome = "fakebudget"
					return s.Outcome
				}
				d := minWake.Sub(now)
				if d < 0 {
					d = 0
				}
				time.Sleep(d)
				continue
			}
			fired := false
			for _, ev := range s.Events {
				if !ev.fired && ev.AtQuiescence {
					s.fire(ev)
					fired = true
					break
				}
			}
			if fired {
				continue
			}
			s.Outcome = "deadlock"
			return s.Outcome
		}
		if s.Step >= s.MaxSteps {
			s.Outcome = "budget"
			return s.Outcome
		}

		// choose
		var pick *Task
		prevIdx := -1
		for i, t := range elig {
			if t == s.lastTask {
				prevIdx = i
			}
		}
		if c == 0 {
			if prevIdx >= 0 && !(elig[prevIdx].Daemon && judgedElig > 0) {
				pick = elig[prevIdx]
			} else {
				// by default a daemon never keeps the processor while a judged task could run
				pick = elig[0]
				for _, t := range elig {
					if !t.Daemon || judgedElig == 0 {
						pick = t
						break
					}
				}
			}
		} else {
			others := elig
			if prevIdx >= 0 && len(elig) > 1 {
				others = append(append([]*Task(nil), elig[:prevIdx]...), elig[prevIdx+1:]...)
			}
			pick = others[int(c-1)%len(others)]
		}
		if pick != s.lastTask && s.lastTask != nil {
			s.Switches++
		}
		s.lastTask = pick
		if s.KeepLog {
			s.Log = append(s.Log, LogEntry{s.Step, pick.ID, pick.kind})
		}
		s.Step++
		s.mu.Lock()
		pick.state = Running
		pick.Steps++
		s.mu.Unlock()
		pick.wake <- struct{}{}
	}
}

func (s *Sim) fire(ev *Event) {
	ev.fired = true
	s.FiredEvts = append(s.FiredEvts, fmt.Sprintf("%s@%d", ev.Name, s.Step))
	ev.Do(s)
}

// Teardown kills every remaining task at its next yield point. Tasks blocked
// in something the simulation does not own are leaked (the end-of-bubble
// deadlock panic of synctest.Test has to be recovered by the caller).
func (s *Sim) Teardown(extra func()) {
	s.mu.Lock()
	s.kill = true
	s.mu.Unlock()
	if extra != nil {
		extra()
	}
	for round := 0; round < 64; round++ {
		var maxWake time.Time
		s.mu.Lock()
		for _, t := range s.tasks {
			switch t.state {
			case Parked:
				select {
				case t.wake <- struct{}{}:
				default:
				}
			case Sleeping:
				if t.wakeAt.After(maxWake) {
					maxWake = t.wakeAt
				}
			}
		}
		s.mu.Unlock()
		synctest.Wait()
		if maxWake.IsZero() {
			break
		}
		if d := time.Until(maxWake); d > 0 {
			time.Sleep(d)
		}
		synctest.Wait()
	}
	s.Close()
}

// LogHash is a stable digest of the scheduling log.
func (s *Sim) LogHash() uint64 {
	h := uint64(1469598103934665603)
	mix := func(b byte) { h ^= uint64(b); h *= 1099511628211 }
	for _, e := range s.Log {
		for _, c := range []byte(strconv.Itoa(e.Step)) {
			mix(c)
		}
		mix('|')
		for _, c := range []byte(e.Task) {
			mix(c)
		}
		mix('|')
		for _, c := range []byte(e.Kind) {
			mix(c)
		}
		mix('\n')
	}
	return h
}

// ---------------------------------------------------------------------------
// RWMutex / Mutex

// RWMutex replaces sync.RWMutex inside package env at check time.
type RWMutex struct {
	real     sync.RWMutex
	w        *Task
	r        []*Task
	pendingW int
	// lockset bookkeeping (Access): which task touched the guarded tables last, and how often that changed
	accOwner     *Task
	accHandovers int
	// accessField bookkeeping: who used a plain guarded field of the scope, and how
	fieldUses    []*fieldUse
	fieldFlagged bool
	// otherField bookkeeping: Eraser's candidate locksets for every other plain field of the scope
	eraser map[string]*eraserState
}

func (m *RWMutex) heldBy(t *Task, writeOnly bool) bool {
	if m.w == t {
		return true
	}
	if writeOnly {
		return false
	}
	for _, x := range m.r {
		if x == t {
			return true
		}
	}
	return false
}

// Lock acquires the write lock. Inside a simulation the call is a scheduling
// decision (the task parks just before it announces itself); if the lock is not
// free when the task is released, it becomes a pending writer - which, as with
// sync.RWMutex, blocks every later RLock - and parks until the lock is free.
func (m *RWMutex) Lock() {
	s, t := current()
	if t == nil {
		m.real.Lock()
		return
	}
	s.yield(t, "lock", nil)
	s.mu.Lock()
	if m.w == nil && len(m.r) == 0 {
		m.w = t
		t.acquired(m, true)
		s.Counters["lock"]++
		s.mu.Unlock()
		m.real.Lock()
		return
	}
	m.pendingW++
	s.Counters["lock_blocked"]++
	s.mu.Unlock()
	s.yield(t, "lock-wait", func() bool { return m.w == nil && len(m.r) == 0 })
	s.mu.Lock()
	m.pendingW--
	m.w = t
	t.acquired(m, true)
	s.Counters["lock"]++
	s.mu.Unlock()
	m.real.Lock()
}

// Unlock releases the write lock.
func (m *RWMutex) Unlock() {
	s, t := current()
	if t == nil {
		m.real.Unlock()
		return
	}
	s.mu.Lock()
	ok := m.w == t
	if ok {
		m.w = nil
		t.released(m, true)
	}
	s.mu.Unlock()
	if !ok {
		s.violate("unlock-unheld", "Unlock of a write lock the task does not hold", t)
		return
	}
	m.real.Unlock()
	if s.UnlockYields {
		s.yield(t, "unlocked", nil)
	}
}

// RLock acquires a read lock; a scheduling decision inside a simulation. A
// writer that is holding the lock, or waiting for it, blocks the reader (also
// a reader that already holds a read lock: recursive read locking deadlocks
// against a pending writer, exactly as with sync.RWMutex).
func (m *RWMutex) RLock() {
	s, t := current()
	if t == nil {
		m.real.RLock()
		return
	}
	s.yield(t, "rlock", nil)
	s.mu.Lock()
	if m.w == nil && m.pendingW == 0 {
		m.r = append(m.r, t)
		t.acquired(m, false)
		s.Counters["rlock"]++
		s.mu.Unlock()
		m.real.RLock()
		return
	}
	s.Counters["rlock_blocked"]++
	s.mu.Unlock()
	s.yield(t, "rlock-wait", func() bool { return m.w == nil && m.pendingW == 0 })
	s.mu.Lock()
	m.r = append(m.r, t)
	t.acquired(m, false)
	s.Counters["rlock"]++
	s.mu.Unlock()
	m.real.RLock()
}

// RUnlock releases a read lock.
func (m *RWMutex) RUnlock() {
	s, t := current()
	if t == nil {
		m.real.RUnlock()
		return
	}
	s.mu.Lock()
	ok := false
	for i, x := range m.r {
		if x == t {
			m.r = append(m.r[:i], m.r[i+1:]...)
			t.released(m, false)
			ok = true
			break
		}
	}
	s.mu.Unlock()
	if !ok {
		s.violate("unlock-unheld", "RUnlock of a read lock the task does not hold", t)
		return
	}
	m.real.RUnlock()
	if s.UnlockYields {
		s.yield(t, "runlocked", nil)
	}
}

// RLocker mirrors sync.RWMutex.RLocker.
func (m *RWMutex) RLocker() sync.Locker { return (*rlocker)(m) }

type rlocker RWMutex

func (r *rlocker) Lock()   { (*RWMutex)(r).RLock() }
func (r *rlocker) Unlock() { (*RWMutex)(r).RUnlock() }

// TryLock mirrors sync.RWMutex.TryLock; a scheduling decision.
func (m *RWMutex) TryLock() bool {
	s, t := current()
	if t == nil {
		return m.real.TryLock()
	}
	s.yield(t, "trylock", nil)
	s.mu.Lock()
	ok := m.w == nil && len(m.r) == 0
	if ok {
		m.w = t
		t.acquired(m, true)
	}
	s.mu.Unlock()
	if ok {
		m.real.Lock()
	}
	return ok
}

// TryRLock mirrors sync.RWMutex.TryRLock; a scheduling decision.
func (m *RWMutex) TryRLock() bool {
	s, t := current()
	if t == nil {
		return m.real.TryRLock()
	}
	s.yield(t, "tryrlock", nil)
	s.mu.Lock()
	ok := m.w == nil && m.pendingW == 0
	if ok {
		m.r = append(m.r, t)
		t.acquired(m, false)
	}
	s.mu.Unlock()
	if ok {
		m.real.RLock()
	}
	return ok
}

// Mutex replaces sync.Mutex.
type Mutex struct{ rw RWMutex }

// RW exposes the underlying lock to the lockset probe.
func (m *Mutex) RW() *RWMutex { return &m.rw }

func (m *Mutex) Lock()         { m.rw.Lock() }
func (m *Mutex) Unlock()       { m.rw.Unlock() }
func (m *Mutex) TryLock() bool { return m.rw.TryLock() }

// Once replaces sync.Once: the real one parks losers on an internal sync.Mutex, which is not a durable block
// inside a synctest bubble (the scheduler would wait for it forever) and offers no scheduling point.
type Once struct {
	m    Mutex
	done atomic.Bool
}

func (o *Once) Do(f func()) {
	if o.done.Load() {
		return
	}
	o.m.Lock()
	defer o.m.Unlock()
	if !o.done.Load() {
		defer o.done.Store(true)
		f()
	}
}

// Locker is what Access accepts: either sim mutex type.
type locker interface{ heldBy(*Task, bool) bool }

func (m *Mutex) heldBy(t *Task, w bool) bool { return m.rw.heldBy(t, true) }

// Access is the lockset probe inserted by the rewriter in front of every
// statement of package env that touches a scope's value or type table: inside a
// simulation the calling task must hold that scope's lock (any mode for a
// read, write mode for a write).
func Access(mu locker, write bool, pos string) {
	s, t := current()
	if t == nil {
		return
	}
	s.mu.Lock()
	ok := mu.heldBy(t, write)
	s.Counters["access"]++
	if rw, isRW := mu.(*RWMutex); isRW && !ok {
		// Eraser-style ownership: a scope that only one task has ever touched (a call or block scope that was never
		// published, say) needs no lock, and one hand-over to another task is tolerated. From the moment the
		// accessing task changes a second time the scope is shared and every access needs its lock.
		if rw.accOwner == nil {
			rw.accOwner = t
		}
		if rw.accOwner != t && rw.accHandovers < 2 {
			rw.accOwner = t
			rw.accHandovers++
		}
		if rw.accHandovers < 2 && rw.accOwner == t {
			ok = true
			s.Counters["access_unlocked_but_unshared"]++
		}
	} else if rw, isRW := mu.(*RWMutex); isRW {
		if rw.accOwner == nil {
			rw.accOwner = t
		} else if rw.accOwner != t && rw.accHandovers < 2 {
			rw.accOwner = t
			rw.accHandovers++
		}
	}
	s.mu.Unlock()
	if !ok {
		mode := "read"
		if write {
			mode = "write"
		}
		s.violate("lockset", mode+" of scope table without the scope's lock at "+pos, t)
	}
}

// ---------------------------------------------------------------------------
// context

// Ctx is the simulated context.Context: Done() is a yield point, cancel is a
// scheduler event.
type Ctx struct {
	s         *Sim
	done      chan struct{}
	cancelled atomic.Bool
	CancelAt  int // scheduler step at which cancel was delivered; -1 = never
	values    map[any]any
	// FarDeadline: the context reports a deadline (one hour of simulated time ahead, never reached): what a
	// context.WithTimeout context that is cancelled early looks like to the code under test
	FarDeadline time.Time
	ValueParent context.Context
}

// NewCtx creates a context owned by the simulation (inside the bubble).
func (s *Sim) NewCtx() *Ctx {
	c := &Ctx{s: s, done: make(chan struct{}), CancelAt: -1}
	s.mu.Lock()
	s.ctxs = append(s.ctxs, c)
	s.mu.Unlock()
	return c
}

// AccessOf is the lockset probe as the rewriter emits it: x is whatever expression had its values / types
// field touched. Only scopes (values with the SimLock method the rewriter adds to Env) are checked.
func AccessOf(x interface{}, table string, write bool, pos string) {
	if l, ok := x.(interface{ SimLock(string) *RWMutex }); ok {
		if m := l.SimLock(table); m != nil {
			if table != "values" && table != "types" {
				if table == "externalLookup" {
					accessField(m, table, write, pos)
				} else {
					otherField(m, table, write, pos)
				}
				return
			}
			Access(m, write, pos)
		}
	}
}

type fieldUse struct {
	task   *Task
	reads  []lockSetAt // the distinct sets of locks this task held at its reads of the field
	writes []lockSetAt // ... and, counting only locks held in write mode, at its writes
}

type lockSetAt struct {
	locks []*RWMutex
	pos   string
}

func sameSet(a, b []*RWMutex) bool {
	if len(a) != len(b) {
		return false
	}
	for i := range a {
		if a[i] != b[i] {
			return false
		}
	}
	return true
}

func disjoint(a, b []*RWMutex) bool {
	for _, x := range a {
		for _, y := range b {
			if x == y {
				return false
			}
		}
	}
	return true
}

// accessField is the probe for the scope's external lookup, a plain field that is read on every lookup and written
// rarely. Read-shared state in Eraser's sense: any number of tasks may read it without a lock as long as nobody
// writes it. A violation is two accesses by DIFFERENT tasks of one run, at least one of them a write, that have no
// lock in common (a write counts only the locks it holds in write mode). The simulation serialises everything, so
// "could these two race on real threads" is decided from the locks held, not from what happened to interleave; and
// it is decided pair by pair, from the locks actually held, not from an assumed "the scope's lock": a scope with
// one lock per table whose writer takes both and whose readers take either is correctly synchronised.
func accessField(m *RWMutex, field string, write bool, pos string) {
	s, t := current()
	if t == nil {
		return
	}
	s.mu.Lock()
	s.Counters["access_field"]++
	var held []*RWMutex
	for _, h := range t.held {
		if !write || h.write {
			held = append(held, h.m)
		}
	}
	var me *fieldUse
	for _, u := range m.fieldUses {
		if u.task == t {
			me = u
		}
	}
	if me == nil {
		me = &fieldUse{task: t}
		m.fieldUses = append(m.fieldUses, me)
	}
	mine := &me.reads
	if write {
		mine = &me.writes
	}
	known := false
	for _, ls := range *mine {
		if sameSet(ls.locks, held) {
			known = true
		}
	}
	if !known {
		*mine = append(*mine, lockSetAt{held, pos})
	}
	mode := map[bool]string{false: "read", true: "write"}
	detail := ""
	for _, u := range m.fieldUses {
		if u.task == t || detail != "" {
			continue
		}
		for _, w := range u.writes {
			if disjoint(held, w.locks) {
				detail = fmt.Sprintf("%s of %s at %s and write of %s by task %s at %s have no lock in common (a write counts the locks it holds in write mode)", mode[write], field, pos, field, u.task.ID, w.pos)
				break
			}
		}
		if detail == "" && write {
			for _, r := range u.reads {
				if disjoint(held, r.locks) {
					detail = fmt.Sprintf("write of %s at %s and read of %s by task %s at %s have no lock in common (a write counts the locks it holds in write mode)", field, pos, field, u.task.ID, r.pos)
					break
				}
			}
		}
	}
	flagged := m.fieldFlagged
	if detail != "" {
		m.fieldFlagged = true
	}
	s.mu.Unlock()
	if detail != "" && !flagged {
		s.violate("lockset", detail, t)
	}
}

// eraserState is the state of one plain field of one scope in Eraser's lockset algorithm (Savage et al. 1997),
// with reader/writer locks and one tolerated hand-over of ownership.
type eraserState struct {
	owner     *Task // the only task that has touched the field so far (or since the one tolerated hand-over)
	handovers int
	shared    bool
	modified  bool       // written since it became shared
	cand      []*RWMutex // candidate locks: held at every access since the field became shared
	lastBare  string     // position of the last access that held no candidate lock
	flagged   bool
}

// otherField is the lockset probe for the plain fields of a scope other than its tables and its external lookup
// (a counter, a listing order, a cached pointer: whatever a change adds to the struct). No lock is known to guard
// such a field, so the rule is Eraser's: while one task has the field to itself nothing is demanded (one hand-over
// to a second task is tolerated: a scope built by one goroutine and then used by another); once it is shared, the
// locks held at EVERY access are intersected - a write counts only the locks it holds in write mode - and a field
// that has been written since it became shared with an empty intersection is a data race on real threads,
// whatever the simulation happened to interleave. Fields kept in sync / sync/atomic types are never probed.
func otherField(m *RWMutex, field string, write bool, pos string) {
	s, t := current()
	if t == nil {
		return
	}
	s.mu.Lock()
	s.Counters["access_other_field"]++
	if m.eraser == nil {
		m.eraser = map[string]*eraserState{}
	}
	st := m.eraser[field]
	if st == nil {
		st = &eraserState{owner: t}
		m.eraser[field] = st
	}
	var held []*RWMutex
	for _, h := range t.held {
		if !write || h.write {
			held = append(held, h.m)
		}
	}
	detail := ""
	if !st.shared {
		if st.owner != t {
			if st.handovers == 0 {
				st.owner, st.handovers = t, 1
			} else {
				st.shared, st.cand = true, held
			}
		}
	} else {
		var keep []*RWMutex
		for _, c := range st.cand {
			for _, h := range held {
				if c == h {
					keep = append(keep, c)
					break
				}
			}
		}
		st.cand = keep
	}
	if st.shared {
		if write {
			st.modified = true
		}
		if len(held) == 0 {
			st.lastBare = pos
		}
		if st.modified && len(st.cand) == 0 && !st.flagged {
			st.flagged = true
			mode := "read"
			if write {
				mode = "write"
			}
			detail = fmt.Sprintf("%s of the scope's field %s at %s: the field is used by several tasks and written, and no lock is held (in the mode the access needs) at every one of those accesses", mode, field, pos)
			if st.lastBare != "" && st.lastBare != pos {
				detail += "; an access without any lock: " + st.lastBare
			}
			s.Counters["lockset_other_field"]++
		}
	}
	s.mu.Unlock()
	if detail != "" {
		s.violate("lockset", detail, t)
	}
}

// PollChan is inserted by the rewriter (R7) in front of a select statement that receives from a channel held in a
// variable or field rather than obtained by a call: code that fetched ctx.Done() once and polls the stored channel
// must offer the same scheduling points, and be seen observing the cancellation, as code that calls Done() at
// every poll. Nothing is received from the channel.
func PollChan(ch interface{}) {
	s, t := current()
	if t == nil || t.solo {
		return
	}
	s.yield(t, "poll", nil)
	rv := reflect.ValueOf(ch)
	if !rv.IsValid() || rv.Kind() != reflect.Chan || rv.IsNil() {
		return
	}
	s.mu.Lock()
	for _, c := range s.ctxs {
		if reflect.ValueOf(c.done).Pointer() == rv.Pointer() {
			t.Polls++
			if c.cancelled.Load() && t.ObservedCancelStep < 0 {
				t.ObservedCancelStep = s.Step
			}
		}
	}
	s.mu.Unlock()
}

func (c *Ctx) Deadline() (time.Time, bool) { return c.FarDeadline, !c.FarDeadline.IsZero() }

func (c *Ctx) Done() <-chan struct{} {
	s, t := current()
	if t != nil {
		s.yield(t, "poll", nil)
		s.mu.Lock()
		t.Polls++
		if c.cancelled.Load() && t.ObservedCancelStep < 0 {
			t.ObservedCancelStep = s.Step
		}
		s.mu.Unlock()
	}
	return c.done
}

func (c *Ctx) Err() error {
	// polling through Err() is polling too
	if s, t := current(); t != nil && !t.solo {
		s.yield(t, "poll", nil)
		s.mu.Lock()
		t.Polls++
		if c.cancelled.Load() && t.ObservedCancelStep < 0 {
			t.ObservedCancelStep = s.Step
		}
		s.mu.Unlock()
	}
	if c.cancelled.Load() {
		return errCanceled
	}
	return nil
}

// Value delegates to ValueParent when set: a host's own context type that carries the values (and, through them,
// the standard library's cancel context) of another, still live, context - a "merged" context.
func (c *Ctx) Value(key any) any {
	if c.ValueParent != nil {
		return c.ValueParent.Value(key)
	}
	return nil
}

var errCanceled = fmt.Errorf("context canceled")

// Cancel delivers the cancellation; called from a scheduler event (at
// quiescence) or from teardown. Tasks blocked in a channel operation at that
// instant are marked as having observed it.
func (c *Ctx) Cancel() {
	if c.cancelled.Swap(true) {
		return
	}
	s := c.s
	s.mu.Lock()
	c.CancelAt = s.Step
	if !s.kill {
		for _, t := range s.tasks {
			if t.state == Running && t.ObservedCancelStep < 0 {
				// at quiescence a Running task is blocked in the runtime (channel op)
				t.ObservedCancelStep = s.Step
				t.ObservedBlocked = true
			}
		}
	}
	s.mu.Unlock()
	close(c.done)
}

// Cancelled reports whether Cancel was delivered.
func (c *Ctx) Cancelled() bool { return c.cancelled.Load() }

// ---------------------------------------------------------------------------
// solo mode

// Solo runs fn on the calling goroutine as the only task of a simulation that
// never parks: no bubble and no scheduler are needed, but the sim mutexes
// still track ownership, so the lockset probes and the unlock checks stay
// armed. Used for single-task (sequential-history) configurations.
func Solo(fn func()) *Sim {
	s := &Sim{byGoid: map[uint64]*Task{}, Counters: map[string]int{}, MaxSteps: 1 << 62, start: time.Now()}
	t := &Task{ID: "solo", sim: s, ObservedCancelStep: -1, FinishedStep: -1, solo: true}
	s.tasks = append(s.tasks, t)
	gid := gkey()
	s.byGoid[gid] = t
	cur.Store(s)
	defer func() {
		s.mu.Lock()
		delete(s.byGoid, gid)
		t.state = Done
		s.mu.Unlock()
		cur.CompareAndSwap(s, nil)
	}()
	fn()
	return s
}

// ---------------------------------------------------------------------------
// select

// Select replaces reflect.Select inside the interpreter at check time. The Go
// runtime picks at random among several ready cases - a source of
// nondeterminism that cannot be seeded - so inside a simulation the winner
// among simultaneously ready cases is taken from the case's choice list
// instead: the cases are first tried one by one, without blocking, in an order
// rotated by the current choice; only if none is ready does the task block in
// the real reflect.Select (where at most one case can fire first).
func Select(cases []reflect.SelectCase) (int, reflect.Value, bool) {
	s, t := current()
	if t == nil || t.solo || len(cases) < 2 {
		return reflect.Select(cases)
	}
	s.mu.Lock()
	rot := 0
	if n := len(s.Choices); n > 0 {
		rot = int(s.Choices[(s.Step*7+3)%n])
	}
	s.Counters["select"]++
	s.mu.Unlock()
	n := len(cases)
	fired := -1
	var rv reflect.Value
	var rok bool
	for k := 0; k < n; k++ {
		i := (k + rot) % n
		if cases[i].Dir == reflect.SelectDefault {
			continue
		}
		chosen, v, ok := reflect.Select([]reflect.SelectCase{cases[i], {Dir: reflect.SelectDefault}})
		if chosen == 0 {
			fired, rv, rok = i, v, ok
			break
		}
	}
	if fired >= 0 {
		return fired, rv, rok
	}
	return reflect.Select(cases)
}

// Helpers for rewritten native select statements (verifgen R6).

func Cases(cs ...reflect.SelectCase) []reflect.SelectCase { return cs }

func DefaultCase() reflect.SelectCase { return reflect.SelectCase{Dir: reflect.SelectDefault} }

func RecvCase[T any](ch <-chan T) reflect.SelectCase {
	return reflect.SelectCase{Dir: reflect.SelectRecv, Chan: reflect.ValueOf(ch)}
}

func SendCase[T any](ch chan<- T, v T) reflect.SelectCase {
	return reflect.SelectCase{Dir: reflect.SelectSend, Chan: reflect.ValueOf(ch), Send: reflect.ValueOf(&v).Elem()}
}

// RecvVal gives the received value the static type the clause's channel has.
func RecvVal[T any](ch <-chan T, rv reflect.Value) T {
	var zero T
	if !rv.IsValid() || !rv.CanInterface() {
		return zero
	}
	x, _ := rv.Interface().(T)
	return x
}
