//go:build !amd64

package simrt

func gkey() uint64 { return goid() }
