// The worker is a test binary because testing/synctest bubbles need a
// *testing.T. The driver (cmd/check) builds it with the overlay and starts one
// OS process per core.
package worker

import (
	"bufio"
	"encoding/json"
	"fmt"
	"os"
	"strconv"
	"testing"
	"time"

	"verifsim/harness"
	_ "verifsim/props/c01"
	_ "verifsim/props/c02"
	_ "verifsim/props/c09"
	_ "verifsim/props/c12"
	_ "verifsim/props/c13"
	_ "verifsim/props/c14"
	_ "verifsim/props/c16"
)

type line struct {
	Kind    string          `json:"kind"` // case | violation | minimised | replay | done
	Seed    int64           `json:"seed"`
	Res     *harness.Result `json:"res,omitempty"`
	Case    *harness.Case   `json:"case,omitempty"`
	Runs    int             `json:"runs,omitempty"`
	Elapsed float64         `json:"elapsed_s,omitempty"`
}

func envInt(k string, def int64) int64 {
	if v := os.Getenv(k); v != "" {
		n, err := strconv.ParseInt(v, 10, 64)
		if err == nil {
			return n
		}
	}
	return def
}

func TestWorker(t *testing.T) {
	id := os.Getenv("VERIF_PROP")
	if id == "" {
		t.Skip("VERIF_PROP not set")
	}
	p := harness.Lookup(id)
	if p == nil {
		fmt.Fprintln(os.Stderr, "worker: unknown property", id)
		os.Exit(2)
	}
	outPath := os.Getenv("VERIF_OUT")
	out := os.Stdout
	if outPath != "" {
		f, err := os.Create(outPath)
		if err != nil {
			fmt.Fprintln(os.Stderr, "worker:", err)
			os.Exit(2)
		}
		defer f.Close()
		out = f
	}
	bw := bufio.NewWriterSize(out, 1<<16)
	emit := func(l line) {
		b, _ := json.Marshal(l)
		bw.Write(b)
		bw.WriteByte('\n')
	}
	defer bw.Flush()
	hb := os.Getenv("VERIF_HEARTBEAT")
	beat := func(s string) {
		if hb != "" {
			os.WriteFile(hb, []byte(s), 0o644)
		}
	}
	curBeat := ""
	harness.Beat = func(msg string) { beat(curBeat + " " + msg) }
	tier := os.Getenv("VERIF_TIER")
	if tier == "" {
		tier = "quick"
	}
	start := time.Now()

	switch mode := os.Getenv("VERIF_MODE"); mode {
	case "", "sweep":
		base := envInt("VERIF_SEED_BASE", 1)
		count := envInt("VERIF_COUNT", 100)
		offset := envInt("VERIF_OFFSET", 0)
		stride := envInt("VERIF_STRIDE", 1)
		deadline := envInt("VERIF_DEADLINE", 0)
		samples := envInt("VERIF_SAMPLES", 0)
		maxViol := envInt("VERIF_MAX_VIOL", 20)
		nviol := int64(0)
		nknown := 0
		n := 0
		for i := offset; i < count; i += stride {
			if deadline > 0 && n%16 == 0 && time.Now().Unix() >= deadline {
				break
			}
			seed := base + i
			curBeat = fmt.Sprintf("seed %d", seed)
			beat(curBeat)
			c := p.Gen(seed, tier)
			r := p.Run(t, c, false)
			n++
			l := line{Kind: "case", Seed: seed, Res: r}
			if r.Violation != "" {
				l.Kind = "violation"
				l.Case = c
				if ks, ok := p.(harness.KnownStripper); ok {
					if sc, found := ks.StripKnown(c); found {
						if r2 := p.Run(t, sc, false); r2.Violation != "" {
							// fails without the known construct too: a different violation
							l.Case, l.Res = sc, r2
						} else {
							l.Kind = "known-candidate"
							nknown++
							if nknown > 3 {
								l.Case = nil
							}
						}
					}
				}
				if l.Kind == "violation" {
					nviol++
				}
			} else if samples > 0 {
				l.Case = c
				samples--
			}
			emit(l)
			if nviol > 0 {
				bw.Flush()
			}
			if nviol >= maxViol {
				break
			}
		}
		emit(line{Kind: "done", Runs: n, Elapsed: time.Since(start).Seconds()})

	case "gen":
		seed := envInt("VERIF_SEED_BASE", 1)
		emit(line{Kind: "gen", Seed: seed, Case: p.Gen(seed, tier)})

	case "replay", "minimise":
		b, err := os.ReadFile(os.Getenv("VERIF_CASE"))
		if err != nil {
			fmt.Fprintln(os.Stderr, "worker:", err)
			os.Exit(2)
		}
		var c harness.Case
		if err := json.Unmarshal(b, &c); err != nil {
			fmt.Fprintln(os.Stderr, "worker: bad case file:", err)
			os.Exit(2)
		}
		curBeat = fmt.Sprintf("%s seed %d", mode, c.Seed)
		beat(curBeat)
		if mode == "replay" {
			r := p.Run(t, &c, true)
			emit(line{Kind: "replay", Seed: c.Seed, Res: r, Case: &c})
		} else {
			class := os.Getenv("VERIF_CLASS")
			mc, mr, runs := harness.Minimise(p, t, &c, class, int(envInt("VERIF_MIN_BUDGET", 1500)))
			emit(line{Kind: "minimised", Seed: c.Seed, Res: mr, Case: mc, Runs: runs, Elapsed: time.Since(start).Seconds()})
		}
	default:
		fmt.Fprintln(os.Stderr, "worker: unknown mode", mode)
		os.Exit(2)
	}
}
