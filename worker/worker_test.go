// The worker is a test binary because testing/synctest bubbles need a
// *testing.T. The driver (cmd/check) builds it with the overlay and starts one
// OS process per core.
package worker

import (
	"bufio"
	"encoding/binary"
	"encoding/json"
	"fmt"
	"os"
	"strconv"
	"strings"
	"testing"
	"time"

	"verifsim/harness"
	_ "verifsim/props/c01"
	_ "verifsim/props/c02"
	_ "verifsim/props/c09"
	_ "verifsim/props/c12"
	_ "verifsim/props/c13"
	_ "verifsim/props/c14"
	_ "verifsim/props/c16"
)

type agg struct {
	Evals     int64            `json:"evals"`
	Steps     int64            `json:"steps"`
	Switches  int64            `json:"switches"`
	Contended int64            `json:"contended"`
	FakeNs    int64            `json:"fake_ns"`
	Tasks     int64            `json:"tasks"`
	Inconcl   int64            `json:"inconclusive"`
	Leaked    int64            `json:"leaked"`
	Outcomes  map[string]int64 `json:"outcomes"`
	Counters  map[string]int64 `json:"counters"`
	InconclEx []string         `json:"inconclusive_examples,omitempty"`
}

type line struct {
	Kind    string          `json:"kind"` // case | violation | known-candidate | agg | minimised | replay | done
	Seed    int64           `json:"seed"`
	Res     *harness.Result `json:"res,omitempty"`
	Case    *harness.Case   `json:"case,omitempty"`
	Agg     *agg            `json:"agg,omitempty"`
	Runs    int             `json:"runs,omitempty"`
	Elapsed float64         `json:"elapsed_s,omitempty"`
}

func (a *agg) add(r *harness.Result) {
	a.Evals++
	a.Steps += int64(r.Steps)
	a.Switches += int64(r.Switches)
	a.Contended += int64(r.Contended)
	a.FakeNs += r.FakeNs
	a.Tasks += int64(r.Tasks)
	a.Outcomes[r.Outcome]++
	for k, v := range r.Counters {
		if strings.HasSuffix(k, "_max") {
			if int64(v) > a.Counters[k] {
				a.Counters[k] = int64(v)
			}
			continue
		}
		a.Counters[k] += int64(v)
	}
	if r.Inconclusive != "" {
		a.Inconcl++
		if len(a.InconclEx) < 3 {
			a.InconclEx = append(a.InconclEx, r.Inconclusive)
		}
	}
	if r.Leaked {
		a.Leaked++
	}
}

func hashOf(s string) uint64 {
	if n, err := strconv.ParseUint(s, 16, 64); err == nil {
		return n
	}
	h := uint64(1469598103934665603)
	for i := 0; i < len(s); i++ {
		h ^= uint64(s[i])
		h *= 1099511628211
	}
	return h
}

func writeHashes(path string, set map[uint64]struct{}) {
	buf := make([]byte, 0, 8*len(set))
	for h := range set {
		buf = binary.LittleEndian.AppendUint64(buf, h)
	}
	os.WriteFile(path, buf, 0o644)
}

func envInt(k string, def int64) int64 {
	if v := os.Getenv(k); v != "" {
		n, err := strconv.ParseInt(v, 10, 64)
		if err == nil {
			return n
		}
	}
	return def
}

func TestWorker(t *testing.T) {
	id := os.Getenv("VERIF_PROP")
	if id == "" {
		t.Skip("VERIF_PROP not set")
	}
	p := harness.Lookup(id)
	if p == nil {
		fmt.Fprintln(os.Stderr, "worker: unknown property", id)
		os.Exit(2)
	}
	outPath := os.Getenv("VERIF_OUT")
	out := os.Stdout
	if outPath != "" {
		f, err := os.Create(outPath)
		if err != nil {
			fmt.Fprintln(os.Stderr, "worker:", err)
			os.Exit(2)
		}
		defer f.Close()
		out = f
	}
	bw := bufio.NewWriterSize(out, 1<<16)
	emit := func(l line) {
		b, _ := json.Marshal(l)
		bw.Write(b)
		bw.WriteByte('\n')
	}
	defer bw.Flush()
	hb := os.Getenv("VERIF_HEARTBEAT")
	// one fixed-width record rewritten in place: a single small pwrite per case
	// (no truncate, no rename), so the driver never sees an empty heartbeat
	var hbFile *os.File
	if hb != "" {
		hbFile, _ = os.OpenFile(hb, os.O_CREATE|os.O_WRONLY, 0o644)
	}
	beat := func(s string) {
		if hbFile != nil {
			var rec [160]byte
			for i := range rec {
				rec[i] = ' '
			}
			copy(rec[:159], s)
			rec[159] = '\n'
			hbFile.WriteAt(rec[:], 0)
		}
	}
	curBeat := ""
	harness.Beat = func(msg string) { beat(curBeat + " " + msg) }
	tier := os.Getenv("VERIF_TIER")
	if tier == "" {
		tier = "quick"
	}
	start := time.Now()

	switch mode := os.Getenv("VERIF_MODE"); mode {
	case "", "sweep":
		base := envInt("VERIF_SEED_BASE", 1)
		count := envInt("VERIF_COUNT", 100)
		offset := envInt("VERIF_OFFSET", 0)
		stride := envInt("VERIF_STRIDE", 1)
		deadline := envInt("VERIF_DEADLINE", 0)
		samples := envInt("VERIF_SAMPLES", 0)
		maxViol := envInt("VERIF_MAX_VIOL", 20)
		nviol := int64(0)
		nknown := 0
		n := 0
		emitCases := os.Getenv("VERIF_EMIT_CASES") != ""
		ag := &agg{Outcomes: map[string]int64{}, Counters: map[string]int64{}}
		shapes := map[uint64]struct{}{}
		traces := map[uint64]struct{}{}
		for i := offset; i < count; i += stride {
			if deadline > 0 && n%16 == 0 && time.Now().Unix() >= deadline {
				break
			}
			seed := base + i
			curBeat = fmt.Sprintf("seed %d", seed)
			beat(curBeat)
			c := p.Gen(seed, tier)
			r := p.Run(t, c, false)
			n++
			l := line{Kind: "case", Seed: seed, Res: r}
			if r.Violation != "" {
				l.Kind = "violation"
				l.Case = c
				if ks, ok := p.(harness.KnownStripper); ok {
					if sc, found := ks.StripKnown(c); found {
						if r2 := p.Run(t, sc, false); r2.Violation != "" {
							// fails without the known construct too: a different violation
							l.Case, l.Res = sc, r2
						} else {
							l.Kind = "known-candidate"
							nknown++
							if nknown > 3 {
								l.Case = nil
							}
						}
					}
				}
				if l.Kind == "violation" {
					nviol++
				}
			} else if samples > 0 {
				l.Case = c
				samples--
			}
			ag.add(l.Res)
			if l.Res.Nontrivial {
				shapes[hashOf(l.Res.Shape)] = struct{}{}
			}
			traces[hashOf(l.Res.LogHash)] = struct{}{}
			if emitCases || l.Kind != "case" || l.Case != nil {
				emit(l)
			}
			if nviol > 0 {
				bw.Flush()
			}
			if nviol >= maxViol || r.Tainted {
				break
			}
		}
		emit(line{Kind: "agg", Agg: ag})
		if outPath != "" {
			writeHashes(outPath+".shapes", shapes)
			writeHashes(outPath+".traces", traces)
		}
		emit(line{Kind: "done", Runs: n, Elapsed: time.Since(start).Seconds()})

	case "gen":
		seed := envInt("VERIF_SEED_BASE", 1)
		emit(line{Kind: "gen", Seed: seed, Case: p.Gen(seed, tier)})

	case "strip":
		b, err := os.ReadFile(os.Getenv("VERIF_CASE"))
		if err != nil {
			os.Exit(2)
		}
		var c harness.Case
		if json.Unmarshal(b, &c) != nil {
			os.Exit(2)
		}
		if ks, ok := p.(harness.KnownStripper); ok {
			if sc, found := ks.StripKnown(&c); found {
				emit(line{Kind: "gen", Seed: c.Seed, Case: sc})
			}
		}

	case "replay", "minimise":
		b, err := os.ReadFile(os.Getenv("VERIF_CASE"))
		if err != nil {
			fmt.Fprintln(os.Stderr, "worker:", err)
			os.Exit(2)
		}
		var c harness.Case
		if err := json.Unmarshal(b, &c); err != nil {
			fmt.Fprintln(os.Stderr, "worker: bad case file:", err)
			os.Exit(2)
		}
		curBeat = fmt.Sprintf("%s seed %d", mode, c.Seed)
		beat(curBeat)
		if mode == "replay" {
			r := p.Run(t, &c, true)
			emit(line{Kind: "replay", Seed: c.Seed, Res: r, Case: &c})
		} else {
			class := os.Getenv("VERIF_CLASS")
			mc, mr, runs := harness.Minimise(p, t, &c, class, int(envInt("VERIF_MIN_BUDGET", 1500)))
			emit(line{Kind: "minimised", Seed: c.Seed, Res: mr, Case: mc, Runs: runs, Elapsed: time.Since(start).Seconds()})
		}
	default:
		fmt.Fprintln(os.Stderr, "worker: unknown mode", mode)
		os.Exit(2)
	}
}
