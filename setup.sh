#!/bin/bash
# offline setup: build the driver and warm the go1.26.8 build cache (std, std with -race, harness)
export GOFLAGS=-mod=mod GOPROXY=off GOSUMDB=off GOTOOLCHAIN=local
cd "$(dirname "$(readlink -f "$0")")" || exit 1
mkdir -p bin evidence replays
go1.26.8 build -o bin/check ./cmd/check || exit 1
go1.26.8 build ./... || exit 1
t=$(mktemp -d)
go1.26.8 run ./verifgen -repo /repo -out "$t" || { rm -rf "$t"; exit 1; }
go1.26.8 test -c -overlay "$t/overlay.json" -o "$t/worker.test" ./worker || { rm -rf "$t"; exit 1; }
go1.26.8 test -race -c -o "$t/racer.test" ./racer || { rm -rf "$t"; exit 1; }
rm -rf "$t"
echo setup ok
