// verifgen rewrites copies of /repo's env and vm sources so that they run under
// the simrt scheduler, and emits a `go build -overlay` file. Nothing in /repo is
// touched. Standard library only.
//
//	R1  sync.RWMutex / sync.Mutex type expressions      -> simrt.RWMutex / simrt.Mutex   (env, vm)
//	R2  statements touching X.values / X.types of a     -> preceded by simrt.Access(&X.<mutex>, isWrite, "file:line")   (env)
//	    scope that is not a fresh local
//	R3  go F(a...)                                      -> { f:=F; x:=a...; simrt.Go(func(){ f(x...) }) }   (env, vm)
//	R5  a statement of package vm that calls a channel method of reflect.Value outside a select  -> preceded by simrt.Yield("chanop"),
//	    (TryRecv, TrySend, Recv, Send, Close; Len/Cap in functions that also use one of those)       so that a check-then-act on
//	                                                                                                channel state can be interleaved
//	R4  reflect.Select(cases)                           -> simrt.Select(cases): ties among ready cases are decided by the case's choice list
//
// All insertions stay on the original line so positions in panics and in
// lockset reports are those of the shipped source.
package main

import (
	"encoding/json"
	"flag"
	"fmt"
	"go/ast"
	"go/parser"
	"go/token"
	"os"
	"path/filepath"
	"sort"
	"strconv"
	"strings"
)

type edit struct {
	start, end int
	text       string
}

type report struct {
	Repo         string         `json:"repo"`
	MutexField   string         `json:"env_mutex_field"`
	MutexTypes   int            `json:"mutex_types_rewritten"`
	AccessProbes int            `json:"access_probes_inserted"`
	GoStmts      int            `json:"go_statements_rewritten"`
	Selects      int            `json:"reflect_select_calls_rewritten"`
	ChanYields   int            `json:"channel_method_yields_inserted"`
	NativeSel    int            `json:"native_select_statements_rewritten"`
	StoredPolls  int            `json:"polls_of_stored_channels_given_a_yield"`
	Unrewritten  []string       `json:"unrewritten_sync_sites"`
	Files        map[string]int `json:"edits_per_file"`
	AccessSites  []string       `json:"access_sites"`
	OtherFields  []string       `json:"scope_fields_probed_with_the_general_lockset_rule"`
	FreshSkipped []string       `json:"fresh_local_accesses_skipped"`
	Problems     []string       `json:"problems"`
	Degraded     []string       `json:"degraded"`
	overlay      map[string]string
	scopeType    string // the struct type that holds `values` and the mutex (Env)
	scopeFile    string
	scopeMuRW    bool
	tableLock    map[string]string
}

func main() {
	repo := flag.String("repo", "/repo", "repository tree to read")
	target := flag.String("target", "", "path under which the go tool sees the module (default: same as -repo); when it differs, every source file of -repo is overlaid onto it, so a scratch worktree can be checked without touching the module directory")
	out := flag.String("out", "", "scratch output directory")
	flag.Parse()
	if *target == "" {
		*target = *repo
	}
	if *out == "" {
		fmt.Fprintln(os.Stderr, "verifgen: -out required")
		os.Exit(2)
	}
	rep := &report{Repo: *repo, Files: map[string]int{}, overlay: map[string]string{}}
	if err := run(*repo, *out, rep); err != nil {
		fmt.Fprintln(os.Stderr, "verifgen:", err)
		os.Exit(2)
	}
	plain := map[string]string{}
	if *target != *repo {
		// identity overlay of the whole alternative tree; the rewritten env/vm files win
		if err := identityOverlay(*repo, *target, plain); err != nil {
			fmt.Fprintln(os.Stderr, "verifgen:", err)
			os.Exit(2)
		}
		re := map[string]string{}
		for k, v := range plain {
			re[k] = v
		}
		for k, v := range rep.overlay {
			rel, _ := filepath.Rel(*repo, k)
			re[filepath.Join(*target, rel)] = v
		}
		rep.overlay = re
	}
	pv, _ := json.MarshalIndent(map[string]any{"Replace": plain}, "", " ")
	os.WriteFile(filepath.Join(*out, "overlay.plain.json"), pv, 0o644)
	ov, _ := json.MarshalIndent(map[string]any{"Replace": rep.overlay}, "", " ")
	if err := os.WriteFile(filepath.Join(*out, "overlay.json"), ov, 0o644); err != nil {
		fmt.Fprintln(os.Stderr, "verifgen:", err)
		os.Exit(2)
	}
	rj, _ := json.MarshalIndent(rep, "", " ")
	os.WriteFile(filepath.Join(*out, "verifgen_report.json"), rj, 0o644)
	if len(rep.Problems) > 0 {
		fmt.Fprintln(os.Stderr, "verifgen: problems:", strings.Join(rep.Problems, "; "))
		os.Exit(2)
	}
}

type fileInfo struct {
	pkg  string
	path string
	src  []byte
	f    *ast.File
}

func run(repo, out string, rep *report) error {
	fset := token.NewFileSet()
	var files []*fileInfo
	for _, pkg := range []string{"env", "vm"} {
		ents, err := os.ReadDir(filepath.Join(repo, pkg))
		if err != nil {
			return err
		}
		for _, e := range ents {
			n := e.Name()
			if e.IsDir() || !strings.HasSuffix(n, ".go") || strings.HasSuffix(n, "_test.go") {
				continue
			}
			p := filepath.Join(repo, pkg, n)
			src, err := os.ReadFile(p)
			if err != nil {
				return err
			}
			f, err := parser.ParseFile(fset, p, src, parser.ParseComments)
			if err != nil {
				return fmt.Errorf("parse %s: %w", p, err)
			}
			files = append(files, &fileInfo{pkg, p, src, f})
		}
	}

	// find the Env struct's mutex field
	notMap := map[string]bool{}
	defer func() {
		for k := range notMap {
			rep.Degraded = append(rep.Degraded, "field `"+k+"` is not a plain map: lockset probes NOT attached to it")
		}
	}()
	skipTables = notMap
	for _, fi := range files {
		if fi.pkg != "env" {
			continue
		}
		ast.Inspect(fi.f, func(n ast.Node) bool {
			ts, ok := n.(*ast.TypeSpec)
			if !ok {
				return true
			}
			st, ok := ts.Type.(*ast.StructType)
			if !ok {
				return true
			}
			hasValues := false
			mu := ""
			muIsRW := true
			type muField struct {
				name string
				rw   bool
			}
			var mus []muField
			var others []string
			for _, fld := range st.Fields.List {
				for _, nm := range fld.Names {
					if nm.Name == "values" {
						hasValues = true
					}
					if nm.Name == "externalLookup" {
						// a plain field of the scope that lookups read and SetExternalLookup writes: probed like a table
						// (read-shared: only a write by another task makes an unlocked access a violation). Not probed
						// when it is kept in a synchronisation type of its own (atomic.Value, atomic.Pointer ...).
						plain := true
						ast.Inspect(fld.Type, func(n ast.Node) bool {
							if se, ok := n.(*ast.SelectorExpr); ok {
								if id, ok := se.X.(*ast.Ident); ok && (id.Name == "atomic" || id.Name == "sync") {
									plain = false
								}
							}
							return true
						})
						if plain {
							guardedFields[nm.Name] = true
						}
					}
					if nm.Name != "values" && nm.Name != "types" && nm.Name != "externalLookup" && !isSyncMutex(fld.Type) {
						// every other plain field of the struct (candidate; kept only if the struct turns out to be the scope type):
						// probed with Eraser's lockset rule, since no particular lock is known to guard it
						plain := true
						ast.Inspect(fld.Type, func(n ast.Node) bool {
							if se, ok := n.(*ast.SelectorExpr); ok {
								if id, ok := se.X.(*ast.Ident); ok && (id.Name == "atomic" || id.Name == "sync") {
									plain = false
								}
							}
							return true
						})
						if plain {
							others = append(others, nm.Name)
						}
					}
					if nm.Name == "values" || nm.Name == "types" {
						if _, isMap := fld.Type.(*ast.MapType); !isMap {
							// the table is no longer a plain map guarded by the mutex (sync.Map, atomic copy-on-write...):
							// "every access under the scope's lock" is not the design any more, so no probe for it
							notMap[nm.Name] = true
						}
					}
				}
				if isSyncMutex(fld.Type) && len(fld.Names) > 0 {
					isRW := true
					if se, ok := fld.Type.(*ast.SelectorExpr); ok && se.Sel.Name == "Mutex" {
						isRW = false
					}
					for _, nm := range fld.Names {
						mus = append(mus, muField{nm.Name, isRW})
					}
					if mu == "" {
						mu, muIsRW = fld.Names[0].Name, isRW
					}
				}
			}
			if hasValues && mu != "" {
				for _, o := range others {
					guardedFields[o] = true
					otherFields[o] = true
				}
				sort.Strings(others)
				rep.OtherFields = others
				rep.MutexField = mu
				rep.scopeType, rep.scopeFile, rep.scopeMuRW = ts.Name.Name, fi.path, muIsRW
				// which lock guards which table: a lock named after a table guards that table, else the first one
				rep.tableLock = map[string]string{}
				for _, table := range []string{"values", "types"} {
					pick := muField{mu, muIsRW}
					stem := strings.TrimSuffix(table, "s")
					for _, m := range mus {
						if strings.Contains(strings.ToLower(m.name), stem) {
							pick = m
							break
						}
					}
					if pick.rw {
						rep.tableLock[table] = "&x." + pick.name
					} else {
						rep.tableLock[table] = "x." + pick.name + ".RW()"
					}
				}
				if len(mus) > 1 {
					rep.Degraded = append(rep.Degraded, fmt.Sprintf("the scope type has %d locks; lockset probes assume values -> %s, types -> %s", len(mus), rep.tableLock["values"], rep.tableLock["types"]))
				}
			}
			return true
		})
	}
	if rep.MutexField == "" {
		// not fatal: linearizability, deadlock and the other oracles do not need the probes; the evidence says so
		rep.Degraded = append(rep.Degraded, "no sync.RWMutex/sync.Mutex field found in the struct that holds `values` in package env: lockset probes NOT attached")
	}

	for _, fi := range files {
		rw := &rewriter{fi: fi, fset: fset, rep: rep}
		rw.rewrite()
		outPath := filepath.Join(out, fi.pkg+"_"+filepath.Base(fi.path))
		if err := os.WriteFile(outPath, rw.apply(), 0o644); err != nil {
			return err
		}
		rep.overlay[fi.path] = outPath
		rep.Files[fi.pkg+"/"+filepath.Base(fi.path)] = len(rw.edits)
	}
	sort.Strings(rep.Unrewritten)
	sort.Strings(rep.AccessSites)
	return nil
}

var skipTables map[string]bool

// guardedFields: non-table fields of the scope type that get lockset probes (see the struct scan in run)
var guardedFields = map[string]bool{}

// otherFields: the subset of guardedFields probed with Eraser's rule (simrt.otherField); only accesses through a
// plain identifier (`e.counter++`, `copy.order = ...`) are probed, so that the probe never evaluates an expression
// the statement itself might guard or that has side effects
var otherFields = map[string]bool{}

func isSyncMutex(e ast.Expr) bool {
	se, ok := e.(*ast.SelectorExpr)
	if !ok {
		return false
	}
	x, ok := se.X.(*ast.Ident)
	return ok && x.Name == "sync" && (se.Sel.Name == "RWMutex" || se.Sel.Name == "Mutex")
}

type rewriter struct {
	fi           *fileInfo
	fset         *token.FileSet
	rep          *report
	edits        []edit
	usesSim      bool
	fresh        map[string]bool
	tmpCount     int
	needGenerics bool
	inOnce       int // > 0 while the body of a function literal handed to a `.Do(` call is scanned
}

func (rw *rewriter) off(p token.Pos) int { return rw.fset.Position(p).Offset }
func (rw *rewriter) text(n ast.Node) string {
	return string(rw.fi.src[rw.off(n.Pos()):rw.off(n.End())])
}
func (rw *rewriter) where(p token.Pos) string {
	ps := rw.fset.Position(p)
	return fmt.Sprintf("%s/%s:%d", rw.fi.pkg, filepath.Base(ps.Filename), ps.Line)
}

func (rw *rewriter) rewrite() {
	f := rw.fi.f
	importsSync := false
	for _, im := range f.Imports {
		if im.Path.Value == `"sync"` {
			importsSync = true
		}
	}

	// R1 + report other sync/atomic uses
	ast.Inspect(f, func(n ast.Node) bool {
		se, ok := n.(*ast.SelectorExpr)
		if !ok {
			return true
		}
		x, ok := se.X.(*ast.Ident)
		if !ok {
			return true
		}
		switch x.Name {
		case "reflect":
			if se.Sel.Name == "Select" {
				// R4: the runtime's random choice among ready select cases goes behind the simulator's seam
				rw.edits = append(rw.edits, edit{rw.off(se.Pos()), rw.off(se.End()), "simrt.Select"})
				rw.rep.Selects++
				rw.usesSim = true
			}
		case "sync":
			if se.Sel.Name == "RWMutex" || se.Sel.Name == "Mutex" {
				rw.edits = append(rw.edits, edit{rw.off(se.Pos()), rw.off(se.End()), "simrt." + se.Sel.Name})
				rw.rep.MutexTypes++
				rw.usesSim = true
			} else if se.Sel.Name == "Once" {
				rw.edits = append(rw.edits, edit{rw.off(se.Pos()), rw.off(se.End()), "simrt.Once"})
				rw.rep.MutexTypes++
				rw.usesSim = true
			} else if se.Sel.Name != "Locker" {
				rw.rep.Unrewritten = append(rw.rep.Unrewritten, rw.where(se.Pos())+" sync."+se.Sel.Name)
			}
		case "atomic":
			rw.rep.Unrewritten = append(rw.rep.Unrewritten, rw.where(se.Pos())+" atomic."+se.Sel.Name)
		}
		return true
	})

	// R3
	ast.Inspect(f, func(n ast.Node) bool {
		g, ok := n.(*ast.GoStmt)
		if !ok {
			return true
		}
		rw.rewriteGo(g)
		return true
	})

	// R2
	if rw.fi.pkg == "env" && rw.rep.MutexField != "" {
		for _, d := range f.Decls {
			fd, ok := d.(*ast.FuncDecl)
			if !ok || fd.Body == nil {
				continue
			}
			rw.fresh = map[string]bool{}
			rw.collectFresh(fd.Body)
			rw.walkList(fd.Body.List)
		}
	}

	// R5
	if rw.fi.pkg == "vm" {
		for _, d := range f.Decls {
			if fd, ok := d.(*ast.FuncDecl); ok && fd.Body != nil {
				rw.chanYields(fd.Body)
			}
		}
	}

	// the scope type tells the lockset probes where its lock is
	if rw.fi.pkg == "env" && rw.rep.scopeType != "" && rw.fi.path == rw.rep.scopeFile {
		n := len(rw.fi.src)
		rw.edits = append(rw.edits, edit{n, n, "\nfunc (x *" + rw.rep.scopeType + ") SimLock(table string) *simrt.RWMutex { if x == nil { return nil }; if table == \"types\" { return " + rw.rep.tableLock["types"] + " }; return " + rw.rep.tableLock["values"] + " }\n"})
		rw.usesSim = true
	}

	// R6 (after R5: a yield inserted in front of a select statement must sort before its replacement)
	rw.nativeSelects(f)

	if rw.usesSim {
		end := rw.off(f.Name.End())
		rw.edits = append(rw.edits, edit{end, end, `; import simrt "verifsim/simrt"`})
		if importsSync {
			n := len(rw.fi.src)
			rw.edits = append(rw.edits, edit{n, n, "\nvar _ sync.Locker\n"})
		}
	}
}

func (rw *rewriter) rewriteGo(g *ast.GoStmt) {
	// Only the text between the operands is edited, so edits nested inside the
	// operands (a function literal touching scope tables, an inner go) survive.
	call := g.Call
	id := rw.tmpCount
	rw.tmpCount++
	fn := fmt.Sprintf("__vf%d", id)
	rw.edits = append(rw.edits, edit{rw.off(g.Pos()), rw.off(call.Fun.Pos()), "{ " + fn + " := "})
	var names []string
	prevEnd := call.Fun.End()
	for i, a := range call.Args {
		inline := false
		switch x := a.(type) {
		case *ast.BasicLit:
			inline = true
		case *ast.Ident:
			if x.Name == "nil" || x.Name == "true" || x.Name == "false" {
				inline = true
			}
		}
		if inline {
			names = append(names, rw.text(a))
			rw.edits = append(rw.edits, edit{rw.off(prevEnd), rw.off(a.Pos()), "; var _ interface{} = "})
		} else {
			nm := fmt.Sprintf("__va%d_%d", id, i)
			names = append(names, nm)
			rw.edits = append(rw.edits, edit{rw.off(prevEnd), rw.off(a.Pos()), "; " + nm + " := "})
		}
		prevEnd = a.End()
	}
	args := strings.Join(names, ", ")
	if call.Ellipsis.IsValid() {
		args += "..."
	}
	rw.edits = append(rw.edits, edit{rw.off(prevEnd), rw.off(g.End()), fmt.Sprintf("; simrt.Go(func() { %s(%s) }) }", fn, args)})
	rw.rep.GoStmts++
	rw.usesSim = true
}

// collectFresh finds local variables bound to a brand-new Env (composite
// literal or &composite literal): nobody else can see them yet, so touching
// their tables needs no lock.
func (rw *rewriter) collectFresh(body *ast.BlockStmt) {
	isEnvLit := func(e ast.Expr) bool {
		if u, ok := e.(*ast.UnaryExpr); ok && u.Op == token.AND {
			e = u.X
		}
		cl, ok := e.(*ast.CompositeLit)
		if !ok {
			return false
		}
		id, ok := cl.Type.(*ast.Ident)
		return ok && id.Name == "Env"
	}
	ast.Inspect(body, func(n ast.Node) bool {
		switch s := n.(type) {
		case *ast.AssignStmt:
			if s.Tok == token.DEFINE && len(s.Lhs) == len(s.Rhs) {
				for i, l := range s.Lhs {
					if id, ok := l.(*ast.Ident); ok && isEnvLit(s.Rhs[i]) {
						rw.fresh[id.Name] = true
					}
				}
			}
		case *ast.ValueSpec:
			for i, nm := range s.Names {
				if i < len(s.Values) && isEnvLit(s.Values[i]) {
					rw.fresh[nm.Name] = true
				}
				if id, ok := s.Type.(*ast.Ident); ok && id.Name == "Env" && len(s.Values) == 0 {
					rw.fresh[nm.Name] = true
				}
			}
		}
		return true
	})
	// a fresh local that is later reassigned from something else is not fresh
	ast.Inspect(body, func(n ast.Node) bool {
		if s, ok := n.(*ast.AssignStmt); ok && s.Tok == token.ASSIGN {
			for _, l := range s.Lhs {
				if id, ok := l.(*ast.Ident); ok && rw.fresh[id.Name] {
					delete(rw.fresh, id.Name)
				}
			}
		}
		return true
	})
}

type access struct {
	x     string
	write bool
	pos   token.Pos
	table string
}

func (rw *rewriter) walkList(list []ast.Stmt) {
	for _, st := range list {
		var acc []access
		rw.scan(st, &acc, true)
		if own := headerNames(st); len(own) > 0 && len(acc) > 0 {
			// a probe sits in FRONT of its statement: a name the statement's own header declares
			// (`for s := e; s != nil; s = s.parent`) does not exist there yet
			kept := acc[:0]
			for _, a := range acc {
				if !own[a.x] {
					kept = append(kept, a)
				}
			}
			acc = kept
		}
		if len(acc) == 0 {
			continue
		}
		seen := map[string]bool{}
		var b strings.Builder
		for _, a := range acc {
			key := fmt.Sprintf("%s|%v", a.x, a.write)
			if seen[key] {
				continue
			}
			seen[key] = true
			site := rw.where(a.pos)
			// AccessOf resolves the scope's mutex at run time (through the SimLock method added to Env below): a
			// struct of another type that happens to have a field called values or types is not a scope and is skipped
			fmt.Fprintf(&b, "simrt.AccessOf(%s, %q, %v, %q); ", a.x, a.table, a.write, site)
			rw.rep.AccessProbes++
			rw.rep.AccessSites = append(rw.rep.AccessSites, fmt.Sprintf("%s %s write=%v", site, a.x, a.write))
		}
		o := rw.off(st.Pos())
		rw.edits = append(rw.edits, edit{o, o, b.String()})
		rw.usesSim = true
	}
}

// headerNames: the identifiers declared by the header of a for / if / switch / range statement.
func headerNames(st ast.Stmt) map[string]bool {
	own := map[string]bool{}
	add := func(s ast.Stmt) {
		if as, ok := s.(*ast.AssignStmt); ok && as.Tok == token.DEFINE {
			for _, l := range as.Lhs {
				if id, ok := l.(*ast.Ident); ok {
					own[id.Name] = true
				}
			}
		}
	}
	switch x := st.(type) {
	case *ast.ForStmt:
		add(x.Init)
	case *ast.IfStmt:
		// the whole else-if chain is scanned as one statement
		for cur := x; cur != nil; {
			add(cur.Init)
			next, _ := cur.Else.(*ast.IfStmt)
			cur = next
		}
	case *ast.SwitchStmt:
		add(x.Init)
	case *ast.TypeSwitchStmt:
		add(x.Init)
		add(x.Assign)
	case *ast.RangeStmt:
		if x.Tok == token.DEFINE {
			for _, e := range []ast.Expr{x.Key, x.Value} {
				if id, ok := e.(*ast.Ident); ok {
					own[id.Name] = true
				}
			}
		}
	case *ast.LabeledStmt:
		return headerNames(x.Stmt)
	}
	return own
}

// tableSel reports whether e is X.values / X.types and returns X's text.
func (rw *rewriter) tableSel(e ast.Expr) (string, bool, bool) {
	se, ok := e.(*ast.SelectorExpr)
	if !ok || (se.Sel.Name != "values" && se.Sel.Name != "types" && !guardedFields[se.Sel.Name]) || skipTables[se.Sel.Name] {
		return "", false, false
	}
	x := rw.text(se.X)
	if otherFields[se.Sel.Name] {
		if rw.inOnce > 0 {
			return "", false, false
		}
		id, isIdent := se.X.(*ast.Ident)
		if !isIdent || id.Obj == nil {
			// not a plain local / parameter / receiver (an imported package has no Obj either)
			return "", false, false
		}
	}
	if id, ok := se.X.(*ast.Ident); ok && rw.fresh[id.Name] {
		rw.rep.FreshSkipped = append(rw.rep.FreshSkipped, rw.where(se.Pos())+" "+x)
		return x, true, true
	}
	return x, true, false
}

func (rw *rewriter) note(e ast.Expr, write bool, acc *[]access) bool {
	x, ok, fresh := rw.tableSel(e)
	if !ok {
		return false
	}
	if !fresh {
		*acc = append(*acc, access{x, write, e.Pos(), e.(*ast.SelectorExpr).Sel.Name})
	}
	return true
}

// scan collects the table accesses that belong to statement n itself; nested
// statement lists are handled by walkList so that their probes sit right in
// front of the statement that performs the access.
func (rw *rewriter) scan(n ast.Node, acc *[]access, top bool) {
	if n == nil {
		return
	}
	switch s := n.(type) {
	case *ast.BlockStmt:
		rw.walkBlock(s, acc)
		return
	case *ast.FuncLit:
		rw.walkList(s.Body.List)
		return
	case *ast.CallExpr:
		// one-time initialisation through a Once (`e.once.Do(func() { e.cache = ... })`) is ordered by the Once, not
		// by a lock: the general lockset rule knows no such edge, so stores made there are not probed (Eraser's own
		// blind spot; the readers are still probed, and reads alone never make a report)
		if se, ok := s.Fun.(*ast.SelectorExpr); ok && se.Sel.Name == "Do" {
			rw.scan(s.Fun, acc, false)
			for _, a := range s.Args {
				if fl, ok := a.(*ast.FuncLit); ok {
					rw.inOnce++
					rw.walkList(fl.Body.List)
					rw.inOnce--
				} else {
					rw.scan(a, acc, false)
				}
			}
			return
		}
		if id, ok := s.Fun.(*ast.Ident); ok && (id.Name == "delete" || id.Name == "clear") && len(s.Args) > 0 {
			if !rw.note(s.Args[0], true, acc) {
				rw.scan(s.Args[0], acc, false)
			}
			for _, a := range s.Args[1:] {
				rw.scan(a, acc, false)
			}
			return
		}
	case *ast.AssignStmt:
		for _, l := range s.Lhs {
			rw.scanLHS(l, acc)
		}
		for _, r := range s.Rhs {
			rw.scan(r, acc, false)
		}
		return
	case *ast.IncDecStmt:
		rw.scanLHS(s.X, acc)
		return
	case *ast.SelectorExpr:
		if rw.note(s, false, acc) {
			return
		}
	}
	// generic descent over children
	ast.Inspect(n, func(c ast.Node) bool {
		if c == nil || c == n {
			return true
		}
		rw.scan(c, acc, false)
		return false
	})
}

func (rw *rewriter) scanLHS(l ast.Expr, acc *[]access) {
	if rw.note(l, true, acc) {
		return
	}
	if ix, ok := l.(*ast.IndexExpr); ok {
		if rw.note(ix.X, true, acc) {
			rw.scan(ix.Index, acc, false)
			return
		}
	}
	// a store THROUGH a guarded field (`e.stats.Lookups++`, `e.order[i].name = ...`, `*e.cell = v`) writes what the
	// field holds: noted as a write of the field (the rest of the expression is scanned as reads)
	for inner := l; ; {
		switch x := inner.(type) {
		case *ast.SelectorExpr:
			inner = x.X
		case *ast.IndexExpr:
			rw.scan(x.Index, acc, false)
			inner = x.X
		case *ast.ParenExpr:
			inner = x.X
		case *ast.StarExpr:
			inner = x.X
		default:
			rw.scan(l, acc, false)
			return
		}
		if se, ok := inner.(*ast.SelectorExpr); ok && otherFields[se.Sel.Name] && rw.note(inner, true, acc) {
			return
		}
	}
}

func (rw *rewriter) walkBlock(b *ast.BlockStmt, acc *[]access) {
	var plain []ast.Stmt
	for _, st := range b.List {
		switch cc := st.(type) {
		case *ast.CaseClause:
			for _, e := range cc.List {
				rw.scan(e, acc, false)
			}
			rw.walkList(cc.Body)
		case *ast.CommClause:
			// the comm statement belongs to the enclosing select
			rw.scan(cc.Comm, acc, false)
			rw.walkList(cc.Body)
		default:
			plain = append(plain, st)
		}
	}
	rw.walkList(plain)
}

func (rw *rewriter) apply() []byte {
	sort.SliceStable(rw.edits, func(i, j int) bool { return rw.edits[i].start < rw.edits[j].start })
	var out []byte
	pos := 0
	src := rw.fi.src
	for _, e := range rw.edits {
		if e.start < pos {
			rw.rep.Problems = append(rw.rep.Problems, fmt.Sprintf("overlapping edits in %s at offset %d", rw.fi.path, e.start))
			continue
		}
		out = append(out, src[pos:e.start]...)
		out = append(out, e.text...)
		pos = e.end
	}
	out = append(out, src[pos:]...)
	return out
}

// identityOverlay maps every non-test Go file of the module at target onto the
// file of the same relative path in repo (deleted there: removed; added there:
// added).
func identityOverlay(repo, target string, ov map[string]string) error {
	walk := func(root string, fn func(rel string)) error {
		return filepath.Walk(root, func(p string, info os.FileInfo, err error) error {
			if err != nil {
				return err
			}
			if info.IsDir() {
				if n := info.Name(); n == ".git" || n == "_example" || n == "testdata" {
					return filepath.SkipDir
				}
				return nil
			}
			if strings.HasSuffix(p, ".go") && !strings.HasSuffix(p, "_test.go") {
				rel, _ := filepath.Rel(root, p)
				fn(rel)
			}
			return nil
		})
	}
	if err := walk(target, func(rel string) { ov[filepath.Join(target, rel)] = "" }); err != nil {
		return err
	}
	return walk(repo, func(rel string) { ov[filepath.Join(target, rel)] = filepath.Join(repo, rel) })
}

var chanMethods = map[string]bool{"TryRecv": true, "TrySend": true, "Recv": true, "Send": true, "Close": true}

// chanYields (R5) puts a yield point in front of every statement that performs a channel
// operation through reflect.Value methods outside reflect.Select. The shipped interpreter has only
// `ch.Close()` of that kind; a fast path like `if ch.Len() > 0 { v, ok = ch.TryRecv() }` gets a
// yield before the check and one before the act, which makes the window between them a
// scheduling decision instead of something only real parallelism can hit.
func (rw *rewriter) chanYields(body *ast.BlockStmt) {
	uses := false
	ast.Inspect(body, func(n ast.Node) bool {
		if c, ok := n.(*ast.CallExpr); ok {
			if se, ok := c.Fun.(*ast.SelectorExpr); ok && chanMethods[se.Sel.Name] && len(c.Args) <= 1 {
				uses = true
			}
		}
		return true
	})
	if !uses {
		return
	}
	shallow := func(st ast.Stmt) bool {
		found := false
		ast.Inspect(st, func(n ast.Node) bool {
			if n == nil || found {
				return false
			}
			switch x := n.(type) {
			case *ast.BlockStmt:
				if ast.Node(x) != ast.Node(st) {
					return false // nested statement lists get their own yields
				}
			case *ast.FuncLit:
				return false
			case *ast.CallExpr:
				if se, ok := x.Fun.(*ast.SelectorExpr); ok && len(x.Args) <= 1 {
					if chanMethods[se.Sel.Name] || se.Sel.Name == "Len" || se.Sel.Name == "Cap" {
						if id, isPkg := se.X.(*ast.Ident); !isPkg || (id.Name != "reflect" && id.Name != "strings" && id.Name != "bytes") {
							found = true
						}
					}
				}
			}
			return true
		})
		return found
	}
	var walk func(list []ast.Stmt)
	walk = func(list []ast.Stmt) {
		for _, st := range list {
			switch x := st.(type) {
			case *ast.DeferStmt, *ast.GoStmt, *ast.LabeledStmt:
				continue
			case *ast.BlockStmt:
				walk(x.List)
				continue
			}
			if shallow(st) {
				o := rw.off(st.Pos())
				rw.edits = append(rw.edits, edit{o, o, `simrt.Yield("chanop"); `})
				rw.rep.ChanYields++
				rw.usesSim = true
			}
			ast.Inspect(st, func(n ast.Node) bool {
				switch b := n.(type) {
				case *ast.FuncLit:
					return false
				case *ast.BlockStmt:
					if ast.Node(b) != ast.Node(st) {
						walk(b.List)
						return false
					}
				case *ast.CaseClause:
					walk(b.Body)
					return false
				case *ast.CommClause:
					walk(b.Body)
					return false
				}
				return true
			})
		}
	}
	walk(body.List)
}

// nativeSelects is R6: a select statement with two or more communication clauses lets the Go runtime pick at
// random among the ready ones. It is rewritten into simrt.Select (the seam R4 already uses) followed by a switch
// on the chosen index, so that the choice comes from the case's choice list. Selects with a single communication
// clause (the interpreter's `case <-ctx.Done(): ... default:` polls) are deterministic and stay as they are.
// Only clause headers are edited; clause bodies keep their text, so nested rewrites compose.
func (rw *rewriter) nativeSelects(f *ast.File) {
	labeled := map[ast.Stmt]bool{}
	ast.Inspect(f, func(n ast.Node) bool {
		if l, ok := n.(*ast.LabeledStmt); ok {
			labeled[l.Stmt] = true
		}
		return true
	})
	ast.Inspect(f, func(n ast.Node) bool {
		sel, ok := n.(*ast.SelectStmt)
		if !ok {
			return true
		}
		comm := 0
		var only ast.Stmt
		for _, c := range sel.Body.List {
			if cm := c.(*ast.CommClause).Comm; cm != nil {
				comm++
				only = cm
			}
		}
		if comm == 1 && !labeled[sel] {
			// R7: a poll of (or a wait on) a channel that was stored earlier instead of being fetched by a call here
			var x ast.Expr
			switch st := only.(type) {
			case *ast.ExprStmt:
				x = st.X
			case *ast.AssignStmt:
				if len(st.Rhs) == 1 {
					x = st.Rhs[0]
				}
			}
			if u, ok := x.(*ast.UnaryExpr); ok && u.Op == token.ARROW {
				stored := true
				ast.Inspect(u.X, func(n ast.Node) bool {
					if _, isCall := n.(*ast.CallExpr); isCall {
						stored = false
					}
					return stored
				})
				if stored {
					o := rw.off(sel.Pos())
					rw.edits = append(rw.edits, edit{o, o, "simrt.PollChan(" + rw.text(u.X) + "); "})
					rw.rep.StoredPolls++
					rw.usesSim = true
				}
			}
		}
		if comm < 2 {
			return true
		}
		if labeled[sel] {
			rw.rep.Degraded = append(rw.rep.Degraded, rw.where(sel.Pos())+" labeled select statement with several clauses left to the runtime's random choice")
			return true
		}
		sfx := strconv.Itoa(rw.off(sel.Pos()))
		pre := "{ "
		var cases []string
		type hdr struct {
			start, end int
			text       string
		}
		var hdrs []hdr
		for i, c := range sel.Body.List {
			cc := c.(*ast.CommClause)
			idx := strconv.Itoa(i)
			cv := "__c" + sfx + "_" + idx
			h := hdr{rw.off(cc.Pos()), rw.off(cc.Colon) + 1, "case " + idx + ":"}
			switch x := cc.Comm.(type) {
			case nil:
				cases = append(cases, "simrt.DefaultCase()")
			case *ast.SendStmt:
				pre += cv + " := " + rw.text(x.Chan) + "; "
				cases = append(cases, "simrt.SendCase("+cv+", "+rw.text(x.Value)+")")
			case *ast.ExprStmt:
				u, ok := x.X.(*ast.UnaryExpr)
				if !ok {
					rw.rep.Problems = append(rw.rep.Problems, rw.where(cc.Pos())+" select clause not understood")
					return true
				}
				pre += cv + " := " + rw.text(u.X) + "; "
				cases = append(cases, "simrt.RecvCase("+cv+")")
			case *ast.AssignStmt:
				u, ok := x.Rhs[0].(*ast.UnaryExpr)
				if !ok || len(x.Rhs) != 1 {
					rw.rep.Problems = append(rw.rep.Problems, rw.where(cc.Pos())+" select clause not understood")
					return true
				}
				pre += cv + " := " + rw.text(u.X) + "; "
				cases = append(cases, "simrt.RecvCase("+cv+")")
				var lhs []string
				for _, l := range x.Lhs {
					lhs = append(lhs, rw.text(l))
				}
				rhs := "simrt.RecvVal(" + cv + ", __sv" + sfx + ")"
				if len(lhs) == 2 {
					rhs += ", __sok" + sfx
				}
				h.text += " " + strings.Join(lhs, ", ") + " " + x.Tok.String() + " " + rhs + ";"
			default:
				rw.rep.Problems = append(rw.rep.Problems, rw.where(cc.Pos())+" select clause not understood")
				return true
			}
			hdrs = append(hdrs, h)
		}
		pre += "__si" + sfx + ", __sv" + sfx + ", __sok" + sfx + " := simrt.Select(simrt.Cases(" + strings.Join(cases, ", ") + ")); _, _ = __sv" + sfx + ", __sok" + sfx + "; switch __si" + sfx + " { default: panic(\"simrt: select index out of range\");"
		rw.edits = append(rw.edits, edit{rw.off(sel.Pos()), rw.off(sel.Body.Lbrace) + 1, pre})
		for _, h := range hdrs {
			rw.edits = append(rw.edits, edit{h.start, h.end, h.text})
		}
		end := rw.off(sel.Body.Rbrace) + 1
		rw.edits = append(rw.edits, edit{end, end, " }"})
		rw.rep.NativeSel++
		rw.usesSim = true
		rw.needGenerics = true
		return true
	})
	if rw.needGenerics {
		// the helpers are generic and the module under test declares an old language version: a go:build line
		// raises the language version of this one (overlaid) file
		if strings.Contains(string(rw.fi.src[:rw.off(f.Package)]), "build") {
			rw.rep.Problems = append(rw.rep.Problems, rw.fi.path+": has a build constraint already, cannot raise its language version for R6")
		} else {
			rw.edits = append(rw.edits, edit{0, 0, "//go:build go1.18\n\n"})
		}
	}
}
